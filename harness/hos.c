/* hos: executor/recorder for the functions that wrap an operating-system / libc service into the bounds-checked
 * interface: strerror_s (+ strerrorlen_s), asctime_s, ctime_s, getenv_s, gmtime_s, localtime_s, gets_s.
 * stdin, one call per line:  id fn dmax dnull pre  args...
 *   pre: 0 dest pre-filled with NULs, 1 with non-zero garbage (no NUL inside dmax)
 *   fn 1 strerror_s     errnum
 *   fn 2 asctime_s      tmnull sec min hour mday mon year wday yday isdst
 *   fn 3 ctime_s        tnull t
 *   fn 4 getenv_s       lennull which      (0 VERIF_A="valueA" 1 VERIF_EMPTY="" 2 VERIF_LONG (40 chars) 3 unset 4 null name)
 *   fn 5 gmtime_s  6 localtime_s    tnull destnull t        (dmax unused)
 *   fn 7 gets_s         nin b1..bnin       (the bytes made available on stdin of the call)
 *   fn 8 fopen_s        spnull fnull mnull which   (0 existing file "r", 1 missing file "r", 2 new file "w", 3 existing file, mode "q")
 *   fn 9 freopen_s      spnull fnull mnull stnull which   (stream = a stream opened on the existing file; filename null = change of mode)
 *   fn 10 tmpfile_s     spnull
 *        the stream pointer object is pre-set to a sentinel; "sp" reports 0 null, 1 a stream (closed again), 2 untouched.
 *        ref = errno of the standard function called with the same arguments (0 = it succeeds)
 * dest lies flush against an inaccessible page.  Next to each call the standard function's own result is recorded
 * (ref / refn).  No expectations in here. */
#include "hcommon.h"
#include <time.h>
#include <fcntl.h>

static void put_bytes(const char *key, const unsigned char *p, long n) {
    long i;
    printf("\"%s\":[", key);
    for (i = 0; i < n; i++) printf("%s%d", i ? "," : "", p[i]);
    printf("]");
}

static const char *h_tmpdir;
static char fexist[256], fmissing[256], fnew[256];
int main(void) {
    region_t D;
    long id, fn, dmax, dnull, pre;
    char *noz;
    int saved_stdin;
    h_install_signals();
    h_install_handlers();
    D = h_region(2);
    noz = h_nozone();
    setenv("TZ", "UTC", 1); tzset();
    setenv("VERIF_A", "valueA", 1);
    setenv("VERIF_EMPTY", "", 1);
    setenv("VERIF_LONG", "0123456789012345678901234567890123456789", 1);
    unsetenv("VERIF_MISSING");
    saved_stdin = dup(0);
    {
        static char dir[] = "/tmp/hos.XXXXXX";
        if (!mkdtemp(dir)) { perror("mkdtemp"); return 2; }
        h_tmpdir = dir;
    }
    {
        /* the case lines are read from a duplicate of stdin, so that gets_s can be given its own input */
        FILE *in = fdopen(saved_stdin, "r");
        char linebuf[8192];
        while (fgets(linebuf, sizeof linebuf, in)) {
            long a[64];
            int na = 0, off = 0, k;
            char *dest;
            long rc = -9999, i;
            int fk = 0, frame_ok = 1;
            size_t lenv = 777777;
            unsigned char ref[256];
            long refn = -1, same = -1;
            struct tm tmv, tmres, tmref;
            time_t tv = 0;
            char *gp = 0;
            FILE *sp_obj = (FILE *)(uintptr_t)0x5151, *stream9 = 0; long spstate = -1, referr = -1;
            if (sscanf(linebuf, "%ld %ld %ld %ld %ld%n", &id, &fn, &dmax, &dnull, &pre, &off) < 5) continue;
            while (na < 64 && sscanf(linebuf + off, "%ld%n", &a[na], &k) == 1) { off += k; na++; }
            memset(D.rw, 0x5C, D.rwlen);
            if (dnull) dest = 0;
            else if (dmax > 4096 || dmax < 0) dest = noz;
            else dest = D.rw + D.rwlen - dmax;
            if (dest && dest != noz) memset(dest, pre ? 0x5A : 0, dmax);
            memset(&tmv, 0, sizeof tmv); memset(&tmres, 0x11, sizeof tmres); memset(&tmref, 0x11, sizeof tmref);
            /* reference */
            if (fn == 1) { const char *m = strerror((int)a[0]); refn = (long)strlen(m); memcpy(ref, m, refn < 255 ? refn : 255); if (refn > 255) refn = 255; }
            if (fn == 2) {
                tmv.tm_sec = a[1]; tmv.tm_min = a[2]; tmv.tm_hour = a[3]; tmv.tm_mday = a[4]; tmv.tm_mon = a[5]; tmv.tm_year = a[6];
                tmv.tm_wday = a[7]; tmv.tm_yday = a[8]; tmv.tm_isdst = a[9];
                if (!a[0] && a[5] >= 0 && a[5] <= 11 && a[7] >= 0 && a[7] <= 6 && a[6] > -2000 && a[6] < 8100) {
                    char tb[128]; if (asctime_r(&tmv, tb)) { refn = (long)strlen(tb); memcpy(ref, tb, refn); }
                }
            }
            if (fn == 3) { tv = (time_t)a[1]; if (!a[0] && tv >= 0 && tv < 313360441200L) { char tb[128]; if (ctime_r(&tv, tb)) { refn = (long)strlen(tb); memcpy(ref, tb, refn); } } }
            if (fn == 4) {
                static const char *names[] = {"VERIF_A", "VERIF_EMPTY", "VERIF_LONG", "VERIF_MISSING", 0};
                const char *v = names[a[1]] ? getenv(names[a[1]]) : 0;
                if (v) { refn = (long)strlen(v); memcpy(ref, v, refn); }
            }
            if (fn == 5 || fn == 6) { tv = (time_t)a[2]; if (fn == 5) gmtime_r(&tv, &tmref); else localtime_r(&tv, &tmref); }
            if (fn == 7) {
                int pfd[2];
                if (pipe(pfd)) { perror("pipe"); return 2; }
                { unsigned char b[64]; for (i = 0; i < a[0] && i < 64; i++) b[i] = (unsigned char)a[1 + i]; if (a[0]) (void)!write(pfd[1], b, a[0]); }
                close(pfd[1]);
                dup2(pfd[0], 0); close(pfd[0]);
                clearerr(stdin);
            }
            if (fn >= 8 && fn <= 10) {
                FILE *f;
                snprintf(fexist, sizeof fexist, "%s/exists", h_tmpdir); snprintf(fmissing, sizeof fmissing, "%s/no/such", h_tmpdir); snprintf(fnew, sizeof fnew, "%s/new", h_tmpdir);
                f = fopen(fexist, "w"); if (f) { fputs("x\n", f); fclose(f); }
                unlink(fnew);
                if (fn == 8 && !a[1] && !a[2]) {
                    const char *nm = a[3] == 1 ? fmissing : a[3] == 2 ? fnew : fexist, *md = a[3] == 2 ? "w" : a[3] == 3 ? "q" : "r";
                    errno = 0; f = fopen(nm, md); referr = f ? 0 : (errno ? errno : -2); if (f) fclose(f); unlink(fnew);
                }
                if (fn == 9) {
                    stream9 = a[3] ? 0 : fopen(fexist, "r");
                    if (!a[2] && !a[3]) {
                        FILE *t = fopen(fexist, "r"), *r;
                        const char *nm = a[1] ? 0 : a[4] == 1 ? fmissing : fexist, *md = a[4] == 3 ? "q" : "r";
                        errno = 0; r = t ? freopen(nm, md, t) : 0; referr = r ? 0 : (errno ? errno : -2); if (r) fclose(r);
                    }
                }
            }
            h_n = 0; errno = H_ERRNO_PRE(id); h_fault_kind = 0;
            printf("#%ld\n", id); fflush(stdout);
            if (!sigsetjmp(h_jb, 1)) {
                const size_t KB = H_KBOS(id, dest && dest != noz && dmax > 0, dmax);
                h_armed = 1; alarm(5);
                switch (fn) {
                case 1: rc = _strerror_s_chk(dest, (rsize_t)dmax, (errno_t)a[0], KB); break;
                case 2: rc = _asctime_s_chk(dest, (rsize_t)dmax, a[0] ? 0 : &tmv, KB); break;
                case 3: rc = _ctime_s_chk(dest, (rsize_t)dmax, a[0] ? 0 : &tv, KB); break;
                case 4: {
                    static const char *names[] = {"VERIF_A", "VERIF_EMPTY", "VERIF_LONG", "VERIF_MISSING", 0};
                    rc = _getenv_s_chk(a[0] ? 0 : &lenv, dest, (rsize_t)dmax, names[a[1]], KB); break; }
                case 5: gp = (char *)gmtime_s(a[0] ? 0 : &tv, a[1] ? 0 : &tmres); rc = gp ? 0 : 1; break;
                case 6: gp = (char *)localtime_s(a[0] ? 0 : &tv, a[1] ? 0 : &tmres); rc = gp ? 0 : 1; break;
                case 7: gp = _gets_s_chk(dest, (rsize_t)dmax, KB); rc = gp ? 0 : 1; break;
                case 8: rc = fopen_s(a[0] ? 0 : &sp_obj, a[1] ? 0 : (a[3] == 1 ? fmissing : a[3] == 2 ? fnew : fexist), a[2] ? 0 : (a[3] == 2 ? "w" : a[3] == 3 ? "q" : "r")); break;
                case 9: rc = freopen_s(a[0] ? 0 : &sp_obj, a[1] ? 0 : (a[4] == 1 ? fmissing : fexist), a[2] ? 0 : (a[4] == 3 ? "q" : "r"), stream9); break;
                case 10: rc = tmpfile_s(a[0] ? 0 : &sp_obj); break;
                }
                alarm(0); h_armed = 0;
            } else { alarm(0); fk = h_fault_kind; }
            if (fn >= 8 && fn <= 10) {
                spstate = sp_obj == (FILE *)(uintptr_t)0x5151 ? 2 : sp_obj ? 1 : 0;
                if (spstate == 1) fclose(sp_obj); else if (fn == 9 && stream9 && rc == 400) fclose(stream9);
            }
            if (fn == 7) { int ch; while ((ch = getchar()) != EOF) ; clearerr(stdin); }   /* drop what the call left unread */
            if (fn == 5 || fn == 6) same = (gp == (char *)&tmres) && tmres.tm_sec == tmref.tm_sec && tmres.tm_min == tmref.tm_min && tmres.tm_hour == tmref.tm_hour &&
                                           tmres.tm_mday == tmref.tm_mday && tmres.tm_mon == tmref.tm_mon && tmres.tm_year == tmref.tm_year &&
                                           tmres.tm_wday == tmref.tm_wday && tmres.tm_yday == tmref.tm_yday;
            {
                long lim = (dest && dest != noz) ? (dest - D.rw) : D.rwlen;
                for (i = 0; i < lim; i++) if ((unsigned char)D.rw[i] != 0x5C) { frame_ok = 0; break; }
            }
            printf("{\"id\":%ld,\"fn\":%ld,\"dmax\":%ld,\"dnull\":%ld,\"pre\":%ld,\"args\":[", id, fn, dmax, dnull, pre);
            for (i = 0; i < na; i++) printf("%s%ld", i ? "," : "", a[i] > 2000000000L ? 2000000000L : a[i] < -2000000000L ? -2000000000L : a[i]);
            printf("],");
            put_bytes("post", (unsigned char *)((dest && dest != noz && fk != 2) ? dest : 0), (dest && dest != noz && fk != 2) ? (dmax < 300 ? dmax : 300) : 0);
            printf(",");
            put_bytes("ref", ref, refn > 0 ? refn : 0);
            printf(",\"sp\":%ld,\"referr\":%ld", spstate, referr);
            printf(",\"refn\":%ld,\"rc\":%ld,\"len\":%ld,\"same\":%ld,\"tyear\":%ld,", refn, rc, lenv > 1000000000UL ? -1L : (long)lenv, same, (long)tmref.tm_year);
            h_print_handlers(stdout);
            printf(",\"frame_ok\":%s,\"fault\":\"%s\"}\n", frame_ok ? "true" : "false", h_fault_name(fk));
            fflush(stdout);
        }
    }
    if (fexist[0]) { unlink(fexist); unlink(fnew); }
    rmdir(h_tmpdir);
    return 0;
}
