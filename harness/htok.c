/* htok: executor/recorder for tokenising sessions (C14): strtok_s (w=1) and wcstok_s (w=4).
 * stdin : one session per line
 *    sid w place n dmax0 ncalls  c1..cn   then per call:  k d1..dk
 *    cells: 0 NUL, 1 2 non-delimiters, 3 4 5.. delimiters, 7 garbage (any value < 64)
 * stdout: {"e":"Reset",...} then one {"e":"tok",...} event per call.  No expectations. */
#include "hcommon.h"
static unsigned enc(int v) { static const char map[] = {0, 'x', 'y', ',', ';'}; return v < 5 ? (unsigned char)map[v] : v == 7 ? 0xA5 : (unsigned)(0x21 + v); }
static int dec(unsigned b) { int v; for (v = 0; v < 64; v++) if (enc(v) == b) return v; return 1000 + (int)(b & 0xffff); }
int main(void) {
    region_t R;
    long sid;
    int w, place, n, dmax0, ncalls;
    setlocale(LC_ALL, "C");
    h_install_signals();
    h_install_handlers();
    R = h_region(4);
    while (scanf("%ld %d %d %d %d %d", &sid, &w, &place, &n, &dmax0, &ncalls) == 6) {
        int cells[512], i, c;
        char *buf;
        rsize_t dm;
        char *ptr = NULL;
        long eid = sid * 1000;
        if (n > 512) return 2;
        for (i = 0; i < n; i++) scanf("%d", &cells[i]);
        buf = place ? R.rw : R.rw + R.rwlen - (long)n * w;
        memset(R.rw, 0x5C, R.rwlen);
        for (i = 0; i < n; i++) {
            if (w == 1) buf[i] = (char)enc(cells[i]);
            else ((wchar_t *)buf)[i] = (wchar_t)enc(cells[i]);
        }
        printf("{\"e\":\"Reset\",\"id\":%ld,\"sid\":%ld,\"w\":%d,\"buf\":[", eid++, sid, w);
        for (i = 0; i < n; i++) printf("%s%d", i ? "," : "", cells[i]);
        printf("],\"dmax\":%d}\n", dmax0);
        dm = (rsize_t)dmax0;
        for (c = 0; c < ncalls; c++) {
            int k, dc[64];
            char delim[64];
            wchar_t wdelim[64];
            void *ret = NULL;
            int fk = 0;
            long pin = ptr ? (ptr - buf) / w + 1 : 0, din = (long)dm, foff = 0;
            scanf("%d", &k);
            for (i = 0; i < k; i++) { scanf("%d", &dc[i]); delim[i] = (char)enc(dc[i]); wdelim[i] = (wchar_t)enc(dc[i]); }
            delim[k] = 0; wdelim[k] = 0;
            h_n = 0; errno = H_ERRNO_PRE(eid); h_fault_kind = 0;
            if (!sigsetjmp(h_jb, 1)) {
                h_armed = 1; alarm(3);
                if (w == 1) ret = _strtok_s_chk(c == 0 ? buf : NULL, &dm, delim, &ptr, H_KBOS(sid, dmax0 <= n, (long)n * w));
                else ret = _wcstok_s_chk(c == 0 ? (wchar_t *)buf : NULL, &dm, wdelim, (wchar_t **)&ptr, H_KBOS(sid, dmax0 <= n, (long)n * w));
                alarm(0); h_armed = 0;
            } else {
                alarm(0);
                fk = h_fault_kind;
                if (fk == 1 || fk == 2) foff = (h_fault_addr - buf) / w + 1;
            }
            {
                int en = errno;
                long ptri = ptr ? ((ptr >= buf - 64 && ptr <= buf + (long)(n + 64) * w) ? (ptr - buf) / w + 1 : -2) : 0;
                printf("{\"e\":\"tok\",\"id\":%ld,\"sid\":%ld,\"first\":%s,\"delim\":[", eid++, sid, c == 0 ? "true" : "false");
                for (i = 0; i < k; i++) printf("%s%d", i ? "," : "", dc[i]);
                printf("],\"pin\":%ld,\"din\":%ld,\"ret\":%ld,\"post\":[", pin, din, ret ? (long)(((char *)ret - buf) / w + 1) : 0L);
                for (i = 0; i < n; i++) printf("%s%d", i ? "," : "", dec(w == 1 ? (unsigned char)buf[i] : (unsigned)((wchar_t *)buf)[i]));
                printf("],\"ptr\":%ld,\"dmaxp\":%ld,", ptri, (long)dm);
                h_print_handlers(stdout);
                printf(",\"errno\":%d,\"fault\":\"%s\",\"foff\":%ld}\n", en, h_fault_name(fk), foff);
            }
            if (fk) {
                /* consume the remaining calls of this session */
                for (c++; c < ncalls; c++) { scanf("%d", &k); for (i = 0; i < k; i++) scanf("%d", &dc[i]); }
                break;
            }
        }
        fflush(stdout);
    }
    return 0;
}
