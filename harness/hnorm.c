/* hnorm: executor/recorder for wcsnorm_s and the case-folding functions (C17).
 * stdin:  id n mode dmax len cp1..cplen          wcsnorm_s(dest,dmax,src,mode(0 NFD,1 NFC),&len)
 *         id d dmax len cp1..cplen               wcsnorm_decompose_s(dest,dmax,src,&len,false)      (the stages, exported entry points)
 *         id r dmax len cp1..cplen               wcsnorm_reorder_s(dest,dmax,src,len)
 *         id c dmax len cp1..cplen               wcsnorm_compose_s(dest,dmax,src,&len(in: len),false)
 *         id f cp                                iswfc(cp), towfc_s(dest,4,cp), wcsfc_s(dest,16,{cp},&len)
 *         id w dmax len cp1..cplen               wcsfc_s(dest,dmax,src,&len); next to it the number of elements wcsfc_s emits for each
 *                                                character alone (into an ample buffer) is recorded
 * dest lies flush against a guard page.  No expectations in here. */
#include "hcommon.h"
int main(void) {
    region_t R;
    long id;
    char op[4];
    setlocale(LC_ALL, "C.UTF-8");
    h_install_signals();
    h_install_handlers();
    R = h_region(8);
    while (scanf("%ld %3s", &id, op) == 2) {
        if (op[0] == 'n' || op[0] == 'd' || op[0] == 'r' || op[0] == 'c') {
            long mode = 0, dmax, len, i;
            static wchar_t src[4096];
            wchar_t *dest;
            rsize_t outlen = 77777;
            long rc = -9999;
            int fk = 0, frame_ok = 1;
            if (op[0] == 'n') scanf("%ld", &mode);
            scanf("%ld %ld", &dmax, &len);
            for (i = 0; i < len; i++) { long v; scanf("%ld", &v); src[i] = (wchar_t)v; }
            src[len] = 0;
            for (i = 0; i < R.rwlen / 4; i++) ((uint32_t *)R.rw)[i] = 0x5C5C5C5C;
            dest = (wchar_t *)(R.rw + R.rwlen) - dmax;
            h_n = 0; errno = H_ERRNO_PRE(id); h_fault_kind = 0;
            printf("#%ld\n", id); fflush(stdout);
            if (!sigsetjmp(h_jb, 1)) {
                h_armed = 1; alarm(5);
                if (op[0] == 'n')
                    rc = _wcsnorm_s_chk(dest, (rsize_t)dmax, src, mode ? WCSNORM_NFC : WCSNORM_NFD, &outlen, H_KBOS(id, dmax > 0, dmax * sizeof(wchar_t)));
                else if (op[0] == 'd')      /* the stages of wcsnorm_s, which are entry points of their own */
                    rc = _wcsnorm_decompose_s_chk(dest, (rsize_t)dmax, src, &outlen, false, H_KBOS(id, dmax > 0, dmax * sizeof(wchar_t)));
                else if (op[0] == 'r') {
                    rc = _wcsnorm_reorder_s_chk(dest, (rsize_t)dmax, src, (rsize_t)len, H_KBOS(id, dmax > 0, dmax * sizeof(wchar_t)));
                    outlen = 77777;
                } else {
                    outlen = (rsize_t)len;
                    rc = _wcsnorm_compose_s_chk(dest, (rsize_t)dmax, src, &outlen, false, H_KBOS(id, dmax > 0, dmax * sizeof(wchar_t)));
                }
                alarm(0); h_armed = 0;
            } else { alarm(0); fk = h_fault_kind; }
            for (i = 0; i < (R.rwlen / 4) - dmax; i++) if (((uint32_t *)R.rw)[i] != 0x5C5C5C5C) { frame_ok = 0; break; }
            printf("{\"id\":%ld,\"op\":\"%c\",\"mode\":%ld,\"dmax\":%ld,\"s\":[", id, op[0], mode, dmax);
            for (i = 0; i < len; i++) printf("%s%ld", i ? "," : "", (long)(uint32_t)src[i] > 2000000000L ? 2000000000L : (long)(uint32_t)src[i]);
            printf("],\"post\":[");
            for (i = 0; i < dmax && i < 400; i++) printf("%s%ld", i ? "," : "", (long)(uint32_t)dest[i] > 2000000000L ? 2000000000L : (long)(uint32_t)dest[i]);
            printf("],\"rc\":%ld,\"len\":%ld,", rc, outlen > 1000000 ? -1L : (long)outlen);
            h_print_handlers(stdout);
            printf(",\"frame_ok\":%s,\"fault\":\"%s\"}\n", frame_ok ? "true" : "false", h_fault_name(fk));
        } else if (op[0] == 'w') {
            long dmax, len, i;
            static wchar_t src[512];
            long each[512];
            wchar_t *dest;
            rsize_t outlen = 77777;
            long rc = -9999;
            int fk = 0, frame_ok = 1;
            scanf("%ld %ld", &dmax, &len);
            for (i = 0; i < len; i++) { long v; scanf("%ld", &v); src[i] = (wchar_t)v; }
            src[len] = 0;
            for (i = 0; i < len; i++) {   /* per-character emission, ample room */
                wchar_t one[2], big[32]; rsize_t l1 = 0;
                one[0] = src[i]; one[1] = 0;
                each[i] = (_wcsfc_s_chk(big, 32, one, &l1, BOSU) == 0) ? (long)l1 : -1;
            }
            for (i = 0; i < R.rwlen / 4; i++) ((uint32_t *)R.rw)[i] = 0x5C5C5C5C;
            dest = (wchar_t *)(R.rw + R.rwlen) - dmax;
            h_n = 0; errno = H_ERRNO_PRE(id); h_fault_kind = 0;
            printf("#%ld\n", id); fflush(stdout);
            if (!sigsetjmp(h_jb, 1)) {
                h_armed = 1; alarm(5);
                rc = _wcsfc_s_chk(dest, (rsize_t)dmax, src, &outlen, H_KBOS(id, dmax > 0, dmax * sizeof(wchar_t)));
                alarm(0); h_armed = 0;
            } else { alarm(0); fk = h_fault_kind; }
            for (i = 0; i < (R.rwlen / 4) - dmax; i++) if (((uint32_t *)R.rw)[i] != 0x5C5C5C5C) { frame_ok = 0; break; }
            printf("{\"id\":%ld,\"op\":\"w\",\"dmax\":%ld,\"s\":[", id, dmax);
            for (i = 0; i < len; i++) printf("%s%ld", i ? "," : "", (long)(uint32_t)src[i]);
            printf("],\"each\":[");
            for (i = 0; i < len; i++) printf("%s%ld", i ? "," : "", each[i]);
            printf("],\"post\":[");
            for (i = 0; i < dmax && i < 400; i++) printf("%s%ld", i ? "," : "", (long)(uint32_t)dest[i] > 2000000000L ? 2000000000L : (long)(uint32_t)dest[i]);
            printf("],\"rc\":%ld,\"len\":%ld,", rc, outlen > 1000000 ? -1L : (long)outlen);
            h_print_handlers(stdout);
            printf(",\"frame_ok\":%s,\"fault\":\"%s\"}\n", frame_ok ? "true" : "false", h_fault_name(fk));
        } else {
            long cp;
            wchar_t d4[8], d16[32], src[2];
            rsize_t wl = 0;
            int ann = -9, n = -9999, fk = 0;
            long wrc = -9999;
            scanf("%ld", &cp);
            h_n = 0; h_fault_kind = 0;
            printf("#%ld\n", id); fflush(stdout);
            if (!sigsetjmp(h_jb, 1)) {
                h_armed = 1; alarm(5);
                ann = iswfc((uint32_t)cp);
                n = _towfc_s_chk(d4, 4, (uint32_t)cp, BOSU);
                src[0] = (wchar_t)cp; src[1] = 0;
                wrc = _wcsfc_s_chk(d16, 16, src, &wl, BOSU);
                alarm(0); h_armed = 0;
            } else { alarm(0); fk = h_fault_kind; }
            printf("{\"id\":%ld,\"op\":\"f\",\"cp\":%ld,\"ann\":%d,\"n\":%d,\"wrc\":%ld,\"wn\":%ld,\"fault\":\"%s\"}\n", id, cp > 2000000000L ? 2000000000L : cp, ann, n, wrc, (long)wl, h_fault_name(fk));
        }
        fflush(stdout);
    }
    return 0;
}
