/* Secure-erase client (C18): a caller in which the erased buffer is dead after the call.  One binary per
 * (optimisation level, link mode, function, storage, parameter kind): a single call site, as in a real caller; compiled with the flags under test (and -flto together with
 * the library in the LTO modes).  -DFN=1..7 selects the function, -DSTORAGE=0..2 the victim; with -DCONSTP the sizes / offset / value are compile-time
 * constants (-DCN -DCOFF -DCV), otherwise they come from the opaque observer.  Four victims: a stack buffer whose
 * address was handed to I/O-like opaque code (observed after its frame is gone), a heap block (observed when it reaches free), a
 * static object (observed at the end), and a stack buffer that never leaves the optimiser's view (found by scanning the dead stack). */
#include <stdlib.h>
#include <stdint.h>
#include "safe_mem_lib.h"
#include "safe_str_lib.h"
#define PAD 16
#define AREA 512
#define BUFSZ (PAD + AREA + PAD + 64)
extern void obs_params(int argc, char **argv);
extern size_t obs_n(void), obs_off(void);
extern unsigned obs_v(void);
extern void obs_fill(void *p, size_t len);
extern unsigned obs_use(const void *p, size_t len);
extern void obs_register(int slot, const volatile void *p, size_t len);
extern void obs_snapshot(int slot);
extern void obs_pretouch(void);
extern void obs_scan_stack(int slot, size_t len);
extern void obs_print(int slot, const char *storage, int fn, int w, int constp);
extern volatile long g_rc[3];
extern volatile unsigned g_sum;
#ifdef CONSTP
#define PN ((size_t)CN)
#define POFF ((size_t)COFF)
#define PV ((unsigned)CV)
#define ISCONST 1
#else
#define PN obs_n()
#define POFF obs_off()
#define PV obs_v()
#define ISCONST 0
#endif
#if FN == 1
#define W 1
#define ERASE(p, n, v) memset_s((p), (n), (int)(v), (n))
#elif FN == 2
#define W 1
#define ERASE(p, n, v) memzero_s((p), (n))
#elif FN == 3
#define W 2
#define ERASE(p, n, v) memset16_s((uint16_t *)(void *)(p), (n) * 2, (uint16_t)(v), (n))
#elif FN == 4
#define W 4
#define ERASE(p, n, v) memset32_s((uint32_t *)(void *)(p), (n) * 4, (uint32_t)(v), (n))
#elif FN == 5
#define W 2
#define ERASE(p, n, v) memzero16_s((uint16_t *)(void *)(p), (n))
#elif FN == 6
#define W 4
#define ERASE(p, n, v) memzero32_s((uint32_t *)(void *)(p), (n))
#else
#define W 1
#define ERASE(p, n, v) strzero_s((char *)(p), (n))
#endif

#if STORAGE == 0
__attribute__((noinline)) static void victim_stack(void) {
    unsigned char buf[BUFSZ] __attribute__((aligned(16)));
    obs_fill(buf, BUFSZ);
    obs_register(0, buf, BUFSZ);
    g_sum += obs_use(buf, BUFSZ);               /* the secret was needed for something */
    g_rc[0] = ERASE(buf + PAD + POFF, PN, PV);   /* ... and is erased; buf is dead from here on */
}
__attribute__((noinline)) static void tramp(void) {
    volatile char spacer[4096];                  /* keeps the observer's own frames away from the victim's dead frame */
    spacer[0] = 1; spacer[4095] = 1;
    victim_stack();
    spacer[1] = 2;
}
#elif STORAGE == 1
__attribute__((noinline)) static void victim_heap(void) {
    unsigned char *buf = malloc(BUFSZ);
    if (!buf) return;
    obs_fill(buf, BUFSZ);
    obs_register(1, buf, BUFSZ);
    g_sum += obs_use(buf, BUFSZ);
    g_rc[1] = ERASE(buf + PAD + POFF, PN, PV);
    free(buf);
}
#elif STORAGE == 3
/* a buffer whose address never leaves this translation unit: the secret is produced and consumed by code the optimiser
 * sees completely (a key derived locally); the observer finds the dead frame by scanning the stack for the secret. */
static volatile unsigned vk = 7;
__attribute__((noinline)) static void lfill(unsigned char *p, size_t n) {
    unsigned k = vk; size_t i;
    for (i = 0; i < n; i++) p[i] = (unsigned char)(1 + (i * k) % 97);
}
__attribute__((noinline)) static unsigned luse(const unsigned char *p, size_t n) {
    unsigned s = 0; size_t i;
    for (i = 0; i < n; i++) s = s * 31 + p[i];
    return s;
}
__attribute__((noinline)) static void victim_stack(void) {
    unsigned char buf[BUFSZ] __attribute__((aligned(16)));
    lfill(buf, BUFSZ);
    g_sum += luse(buf, BUFSZ);
    g_rc[0] = ERASE(buf + PAD + POFF, PN, PV);
}
__attribute__((noinline)) static void tramp(void) {
    volatile char spacer[4096];
    spacer[0] = 1; spacer[4095] = 1;
    victim_stack();
    spacer[1] = 2;
}
#else
static unsigned char sbuf[BUFSZ] __attribute__((aligned(16)));
__attribute__((noinline)) static void victim_static(void) {
    obs_fill(sbuf, BUFSZ);
    obs_register(2, sbuf, BUFSZ);
    g_sum += obs_use(sbuf, BUFSZ);
    g_rc[2] = ERASE(sbuf + PAD + POFF, PN, PV);
}
#endif
int main(int argc, char **argv) {
    obs_params(argc, argv);
#if STORAGE == 0
    tramp();
    obs_snapshot(0);
    obs_print(0, "stack", FN, W, ISCONST);
#elif STORAGE == 1
    victim_heap();
    obs_print(1, "heap", FN, W, ISCONST);
#elif STORAGE == 3
    obs_pretouch();
    tramp();
    obs_scan_stack(0, BUFSZ);
    obs_print(0, "local", FN, W, ISCONST);
#else
    victim_static();
    obs_snapshot(2);
    obs_print(2, "static", FN, W, ISCONST);
#endif
    return 0;
}
