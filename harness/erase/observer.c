/* Observer for the secure-erase clients (C18).  Compiled at -O0, never with -flto: everything in here is opaque to the
 * optimiser of the client.  It provides the secret, the run-time parameters, and the out-of-band look at the buffer:
 * a byte-wise copy of the registered region taken after the victim's frame is gone (stack), at the moment the block is
 * handed to free() (heap; free is wrapped at link time), and at the end of the program (static).  Records only. */
#include <stdio.h>
#include <stdlib.h>
#include <string.h>
#define NSLOT 3
#define SNAP 640
static const volatile unsigned char *reg[NSLOT];
static size_t reglen[NSLOT];
static unsigned char snap[NSLOT][SNAP];
static int have[NSLOT];
static size_t P_n, P_off;
static unsigned P_v;
volatile long g_rc[NSLOT];
volatile unsigned g_sum;

void obs_params(int argc, char **argv) {
    P_n = argc > 1 ? (size_t)atol(argv[1]) : 8;
    P_off = argc > 2 ? (size_t)atol(argv[2]) : 0;
    P_v = argc > 3 ? (unsigned)strtoul(argv[3], 0, 0) : 0;
}
size_t obs_n(void) { return P_n; }
size_t obs_off(void) { return P_off; }
unsigned obs_v(void) { return P_v; }
void obs_fill(void *p, size_t len) {
    unsigned char *q = p; size_t i;
    for (i = 0; i < len; i++) q[i] = (unsigned char)(1 + (i * 7) % 97);   /* never 0, never a fill byte */
}
unsigned obs_use(const void *p, size_t len) {
    const unsigned char *q = p; unsigned s = 0; size_t i;
    for (i = 0; i < len; i++) s = s * 31 + q[i];
    return s;
}
void obs_register(int slot, const volatile void *p, size_t len) { reg[slot] = p; reglen[slot] = len; have[slot] = 0; }
void obs_snapshot(int slot) {
    size_t i, n = reglen[slot] < SNAP ? reglen[slot] : SNAP;
    const volatile unsigned char *p = reg[slot];
    if (!p) return;
    for (i = 0; i < n; i++) snap[slot][i] = p[i];
    have[slot] = 1;
}
void obs_pretouch(void) {          /* make the stack pages below exist and free of old copies of the pattern */
    volatile char big[32768];
    size_t i;
    for (i = 0; i < sizeof big; i++) big[i] = 0;
}
void obs_scan_stack(int slot, size_t len) {   /* look for the first 16 bytes of the secret in the dead part of the stack */
    volatile char here;
    const volatile unsigned char *top = (const volatile unsigned char *)((unsigned long)&here & ~15UL);
    const volatile unsigned char *p;
    have[slot] = 2;                            /* 2 = the buffer was never materialised in memory */
    for (p = top - 24576; p + len <= top - 64; p += 16) {
        size_t i;
        for (i = 0; i < 16; i++) if (p[i] != (unsigned char)(1 + (i * 7) % 97)) break;
        if (i == 16) {
            reg[slot] = p; reglen[slot] = len;
            obs_snapshot(slot);
            return;
        }
    }
}
extern void __real_free(void *p);
void __wrap_free(void *p) {
    if (p && p == (void *)reg[1] && !have[1]) obs_snapshot(1);
    __real_free(p);
}
void obs_print(int slot, const char *storage, int fn, int w, int constp) {
    size_t i, n = reglen[slot] < SNAP ? reglen[slot] : SNAP;
    printf("{\"storage\":\"%s\",\"fn\":%d,\"w\":%d,\"constp\":%d,\"n\":%zu,\"off\":%zu,\"v\":%u,\"rc\":%ld,\"have\":%d,\"obs\":[", storage, fn, w, constp, P_n, P_off, P_v, g_rc[slot], have[slot]);
    for (i = 0; i < n; i++) printf("%s%d", i ? "," : "", snap[slot][i]);
    printf("]}\n");
}
