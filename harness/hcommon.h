/* Common executor/recorder machinery.  The harness never judges: it lays out an abstract
 * arena in guarded memory, calls the real function, and records what happened. */
#ifndef HCOMMON_H
#define HCOMMON_H
#define _GNU_SOURCE
#include <stdio.h>
#include <stdlib.h>
#include <string.h>
#include <stdint.h>
#include <signal.h>
#include <setjmp.h>
#include <ucontext.h>
#include <unistd.h>
#include <errno.h>
#include <wchar.h>
#include <locale.h>
#include <sys/mman.h>
#include "safe_lib.h"
#include "safe_str_lib.h"
#include "safe_mem_lib.h"

#define PG 4096L
#define HUGE_A (-1)  /* abstract "HUGE" size in case files */
#define BOSU ((size_t)-1)

/* ---- fault capture ---- */
static sigjmp_buf h_jb;
static volatile int h_armed;
static volatile int h_fault_kind; /* 0 none 1 read 2 write 3 abort 4 hang 5 other-signal */
static char *volatile h_fault_addr;

static void h_onsig(int sig, siginfo_t *si, void *uc) {
    if (!h_armed) {
        signal(sig, SIG_DFL);
        raise(sig);
        return;
    }
    if (sig == SIGSEGV || sig == SIGBUS) {
        h_fault_addr = (char *)si->si_addr;
        h_fault_kind = (((ucontext_t *)uc)->uc_mcontext.gregs[REG_ERR] & 2) ? 2 : 1;
    } else if (sig == SIGALRM) {
        h_fault_kind = 4;
    } else if (sig == SIGABRT) {
        h_fault_kind = 3;
    } else {
        h_fault_kind = 5;
    }
    h_armed = 0;
    siglongjmp(h_jb, 1);
}

static void h_install_signals(void) {
    static char alt[1 << 16];
    stack_t ss;
    struct sigaction sa;
    ss.ss_sp = alt;
    ss.ss_flags = 0;
    ss.ss_size = sizeof alt;
    sigaltstack(&ss, 0);
    memset(&sa, 0, sizeof sa);
    sa.sa_sigaction = h_onsig;
    sa.sa_flags = SA_SIGINFO | SA_NODEFER | SA_ONSTACK;
    sigaction(SIGSEGV, &sa, 0);
    sigaction(SIGBUS, &sa, 0);
    sigaction(SIGALRM, &sa, 0);
    sigaction(SIGABRT, &sa, 0);
    sigaction(SIGFPE, &sa, 0);
    sigaction(SIGILL, &sa, 0);
}

/* ---- counting constraint handlers ---- */
#define HMAX 8
static int h_n, h_codes[HMAX], h_kinds[HMAX];
static void h_str_handler(const char *msg, void *ptr, errno_t e) {
    (void)msg; (void)ptr;
    if (h_n < HMAX) { h_codes[h_n] = e; h_kinds[h_n] = 's'; }
    h_n++;
}
static void h_mem_handler(const char *msg, void *ptr, errno_t e) {
    (void)msg; (void)ptr;
    if (h_n < HMAX) { h_codes[h_n] = e; h_kinds[h_n] = 'm'; }
    h_n++;
}
static void h_install_handlers(void) {
    set_str_constraint_handler_s(h_str_handler);
    set_mem_constraint_handler_s(h_mem_handler);
}

/* ---- guarded region: [PROT_NONE][rw npages][PROT_NONE] ---- */
typedef struct {
    char *base;   /* start of mapping (guard) */
    char *rw;     /* start of rw area */
    long rwlen;   /* bytes */
} region_t;

static region_t h_region(long npages) {
    region_t r;
    r.base = mmap(0, (npages + 2) * PG, PROT_NONE, MAP_PRIVATE | MAP_ANONYMOUS, -1, 0);
    if (r.base == MAP_FAILED) { perror("mmap"); exit(2); }
    r.rw = r.base + PG;
    r.rwlen = npages * PG;
    if (mprotect(r.rw, r.rwlen, PROT_READ | PROT_WRITE)) { perror("mprotect"); exit(2); }
    return r;
}
/* zone of inaccessible memory for operands declared with a HUGE size */
static char *h_nozone(void) {
    char *p = mmap(0, 64 * PG, PROT_NONE, MAP_PRIVATE | MAP_ANONYMOUS, -1, 0);
    if (p == MAP_FAILED) { perror("mmap"); exit(2); }
    return p + 16 * PG;
}

static const char *h_fault_name(int k) {
    switch (k) {
    case 0: return "none";
    case 1: return "r";
    case 2: return "w";
    case 3: return "abort";
    case 4: return "hang";
    default: return "sig";
    }
}

static void h_print_handlers(FILE *out) {
    int i;
    fprintf(out, "\"h\":[");
    for (i = 0; i < h_n && i < HMAX; i++) fprintf(out, "%s%d", i ? "," : "", h_codes[i]);
    fprintf(out, "],\"hn\":%d,\"hk\":\"", h_n);
    for (i = 0; i < h_n && i < HMAX; i++) fputc(h_kinds[i], out);
    fprintf(out, "\"");
}


/* the value errno has when the library is entered: part of the history a call must not depend on.
 * Cycles through 0, ENOENT and EILSEQ by case id (a library path that reads errno without having set it
 * itself sees the stale value in two of three runs). */
#define H_ERRNO_PRE(id) ((id) % 3 == 0 ? 0 : (id) % 3 == 1 ? ENOENT : EILSEQ)

/* the size of the destination object as the library is told it: unknown for even case ids, the true size (bytes) for odd ones
 * when the destination is a real buffer - the same call must behave the same either way */
#define H_KBOS(id, valid, bytes) ((((id) & 1) && (valid)) ? (size_t)(bytes) : BOSU)
#endif
