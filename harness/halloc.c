/* halloc: allocation-fault executor (C20).  Links the library with -Wl,--wrap=malloc,calloc,realloc,free so
 * that every allocation request the LIBRARY makes is observed and the k-th can be failed.
 * usage: halloc <scenario> <failk> [p]     (failk = 0: no injected failure; p: every request from the failk-th on fails)
 * stdout: one JSON event per allocator call made while the library call is running, then the return event.
 * The program records; TraceAlloc.tla judges. */
#define _GNU_SOURCE
#include <stdio.h>
#include <stdlib.h>
#include <string.h>
#include <unistd.h>
#include <wchar.h>
#include <locale.h>
#include "safe_lib.h"
#include "safe_str_lib.h"
#include "safe_mem_lib.h"

void *__real_malloc(size_t);
void *__real_calloc(size_t, size_t);
void *__real_realloc(void *, size_t);
void __real_free(void *);

static void *sites[64]; static int nsites;
static void site(void *ra) { int i; for (i = 0; i < nsites; i++) if (sites[i] == ra) return; if (nsites < 64) sites[nsites++] = ra; }
static int armed, nreq, failk, persist;      /* persist: every request from the failk-th on fails (memory stays exhausted) */
#define FAILS(k) (persist ? (failk && (k) >= failk) : (k) == failk)
static void *live[256];
static int nlive_ids;
static char evbuf[1 << 16];
static int evlen;
static void ev(const char *fmt, long a, long b) { evlen += snprintf(evbuf + evlen, sizeof evbuf - evlen, fmt, a, b); }
static int newid(void *p) { live[++nlive_ids] = p; return nlive_ids; }
static int idof(void *p) { int i; for (i = nlive_ids; i >= 1; i--) if (live[i] == p) return i; return 0; }

void *__wrap_malloc(size_t n) {
    void *p;
    if (!armed) return __real_malloc(n);
    nreq++; site(__builtin_return_address(0));
    if (FAILS(nreq)) { ev("{\"e\":\"malloc\",\"k\":%ld,\"ok\":false,\"id\":0,\"size\":%ld}\n", nreq, (long)n); return NULL; }
    armed = 0; p = __real_malloc(n); armed = 1;
    ev("{\"e\":\"malloc\",\"k\":%ld,\"ok\":true,\"id\":%ld}\n", nreq, newid(p));
    return p;
}
void *__wrap_calloc(size_t a, size_t b) {
    void *p;
    if (!armed) return __real_calloc(a, b);
    nreq++; site(__builtin_return_address(0));
    if (FAILS(nreq)) { ev("{\"e\":\"malloc\",\"k\":%ld,\"ok\":false,\"id\":0,\"size\":%ld}\n", nreq, (long)(a * b)); return NULL; }
    armed = 0; p = __real_calloc(a, b); armed = 1;
    ev("{\"e\":\"malloc\",\"k\":%ld,\"ok\":true,\"id\":%ld}\n", nreq, newid(p));
    return p;
}
void *__wrap_realloc(void *q, size_t n) {
    void *p;
    int old;
    if (!armed) return __real_realloc(q, n);
    nreq++; site(__builtin_return_address(0));
    old = q ? idof(q) : 0;
    if (FAILS(nreq)) { ev("{\"e\":\"realloc\",\"k\":%ld,\"ok\":false,\"old\":%ld,\"id\":0}\n", nreq, old); return NULL; }
    armed = 0; p = __real_realloc(q, n); armed = 1;
    if (old) live[old] = NULL;
    evlen += snprintf(evbuf + evlen, sizeof evbuf - evlen, "{\"e\":\"realloc\",\"k\":%d,\"ok\":true,\"old\":%d,\"id\":%d}\n", nreq, old, newid(p));
    return p;
}
void __wrap_free(void *p) {
    int id;
    if (!armed) { __real_free(p); return; }
    if (!p) return;
    id = idof(p);
    ev("{\"e\":\"free\",\"id\":%ld,\"known\":%ld}\n", id, id != 0);
    if (id) live[id] = NULL;
    armed = 0; __real_free(p); armed = 1;
}

static int hcount;
static void handler(const char *m, void *p, errno_t e) { (void)m; (void)p; (void)e; hcount++; }

#define W (sizeof(wchar_t))
static int all_zero(const void *p, size_t n) { const unsigned char *c = p; size_t i; for (i = 0; i < n; i++) if (c[i]) return 0; return 1; }

int main(int argc, char **argv) {
    int sc = argc > 1 ? atoi(argv[1]) : 0;
    long rc = 0;
    int failure = 0, cleared = 1, i;
    static char dest[256];
    static wchar_t wdest[2048], wsrc[2048];
    failk = argc > 2 ? atoi(argv[2]) : 0;
    persist = argc > 3 && argv[3][0] == 'p';
    setlocale(LC_ALL, sc == 2 ? "C" : "C.UTF-8");
    set_str_constraint_handler_s(handler);
    set_mem_constraint_handler_s(handler);
    memset(dest, 'D', sizeof dest);
    for (i = 0; i < 2048; i++) wdest[i] = L'D';
    armed = 1;
    switch (sc) {
    case 1: rc = sprintf_s(dest, 64, "x%lsy", L"abé"); failure = rc < 0; cleared = dest[0] == 0; break;
    case 2: rc = sprintf_s(dest, 64, "x%lsy", L"abé"); failure = rc < 0; cleared = dest[0] == 0; break;   /* C locale: conversion fails */
    case 3: rc = sprintf_s(dest, 64, "%Lf x", 1.5L); failure = rc < 0; cleared = dest[0] == 0; break;
    case 4: rc = sprintf_s(dest, 64, "%Le y", 1.5L); failure = rc < 0; cleared = dest[0] == 0; break;
    case 5: rc = sprintf_s(dest, 64, "%La z", 1.5L); failure = rc < 0; cleared = dest[0] == 0; break;
    case 6: rc = sprintf_s(dest, 64, "%a w", 1.5); failure = rc < 0; cleared = dest[0] == 0; break;
    case 7: case 8: case 9: case 10: {
        for (i = 0; i < 700; i++) wsrc[i] = L'a' + i % 26;
        wsrc[700] = 0;
        if (sc == 7) rc = swprintf_s(wdest, 600, L"%ls", wsrc);
        else if (sc == 9) rc = snwprintf_s(wdest, 600, L"%ls", wsrc);
        else { /* v-variants */
            extern long halloc_v(int which, wchar_t *d, rsize_t n, const wchar_t *f, ...);
            rc = halloc_v(sc, wdest, 600, L"%ls", wsrc);
        }
        failure = rc < 0 || rc >= 600; cleared = wdest[0] == 0 || (rc >= 600 && wdest[599] == 0);
    } break;
    case 11: { /* long source: scratch space on the heap */
        rsize_t len = 0;
        for (i = 0; i < 130; i++) wsrc[i] = L'a';
        wsrc[130] = 0;
        rc = wcsnorm_s(wdest, 400, wsrc, WCSNORM_NFD, &len); failure = rc != 0; cleared = wdest[0] == 0;
    } break;
    case 12: case 13: case 14: case 15: case 16: { /* many combining marks behind one starter */
        rsize_t len = 0;
        int marks = sc == 12 ? 12 : sc == 13 ? 17 : sc == 14 ? 23 : sc == 15 ? 12 : 23;
        wsrc[0] = L'a';
        for (i = 1; i <= marks; i++) wsrc[i] = (i % 2) ? 0x0301 : 0x0323; /* ccc 230 / 220: needs reordering */
        wsrc[marks + 1] = 0;
        rc = wcsnorm_s(wdest, 200, wsrc, sc >= 15 ? WCSNORM_NFC : WCSNORM_NFD, &len); failure = rc != 0; cleared = wdest[0] == 0;
    } break;
    case 17: { int r = 99; rc = _wcsicmp_s_chk(L"Straße", 10, L"STRASSE", 10, &r, (size_t)-1, (size_t)-1); failure = rc != 0; cleared = 1; } break;
    case 18: { int r = 99; rc = _wcsnatcmp_s_chk(L"file10", 10, L"FILE9", 10, 1, &r, (size_t)-1, (size_t)-1); failure = rc != 0; cleared = 1; } break;
    /* every way out of the conversion while its scratch block is live */
    case 19: rc = sprintf_s(dest, 8, "%-12ls", L"ab"); failure = rc < 0; cleared = dest[0] == 0; break;      /* trailing blanks do not fit */
    case 20: rc = sprintf_s(dest, 8, "%12ls", L"ab"); failure = rc < 0; cleared = dest[0] == 0; break;       /* leading blanks do not fit */
    case 21: rc = sprintf_s(dest, 4, "%ls", L"abcdefgh"); failure = rc < 0; cleared = dest[0] == 0; break;   /* the text does not fit */
    case 22: rc = sprintf_s(dest, 64, "%-6ls|%5ls|%.2ls|", L"ab", L"cd", L"efgh"); failure = rc < 0; cleared = dest[0] == 0; break;
    case 23: rc = snprintf_s(dest, 4, "%-9ls|", L"abcdef"); failure = rc < 0; cleared = dest[0] == 0; break; /* truncation */
    case 24: rc = sprintf_s(dest, 4, "%Lf x", 1.5L); failure = rc < 0; cleared = dest[0] == 0; break;
    case 25: rc = sprintf_s(dest, 4, "%Le y", 1.5L); failure = rc < 0; cleared = dest[0] == 0; break;
    case 26: rc = sprintf_s(dest, 4, "%La z", 1.5L); failure = rc < 0; cleared = dest[0] == 0; break;
    case 27: rc = sprintf_s(dest, 4, "%a w", 1.5); failure = rc < 0; cleared = dest[0] == 0; break;
    case 28: { /* heap scratch, result does not fit */
        rsize_t len = 0;
        for (i = 0; i < 130; i++) wsrc[i] = 0xE9;
        wsrc[130] = 0;
        rc = wcsnorm_s(wdest, 140, wsrc, WCSNORM_NFD, &len); failure = rc != 0; cleared = wdest[0] == 0;
    } break;
    case 29: case 30: { /* reorder / compose buffers live, result does not fit */
        rsize_t len = 0;
        wsrc[0] = L'a';
        for (i = 1; i <= 23; i++) wsrc[i] = (i % 2) ? 0x0301 : 0x0323;
        wsrc[24] = 0;
        rc = wcsnorm_s(wdest, 20, wsrc, sc == 30 ? WCSNORM_NFC : WCSNORM_NFD, &len); failure = rc != 0; cleared = wdest[0] == 0;
    } break;
    case 31: case 32: { /* a fold that outgrows its scratch string (8 x U+FB03 -> 24 elements, room for 22): 31 the second operand, 32 the first */
        int r = 99;
        static const wchar_t ffi[] = {0xFB03, 0xFB03, 0xFB03, 0xFB03, 0xFB03, 0xFB03, 0xFB03, 0xFB03, 0};
        rc = sc == 31 ? _wcsicmp_s_chk(L"Straße", 10, ffi, 9, &r, (size_t)-1, (size_t)-1) : _wcsicmp_s_chk(ffi, 9, L"STRASSE", 10, &r, (size_t)-1, (size_t)-1);
        failure = rc != 0; cleared = 1;
    } break;
    case 33: case 34: { /* the same for the natural-order comparison with case folding */
        int r = 99;
        static const wchar_t ffi[] = {0xFB03, 0xFB03, 0xFB03, 0xFB03, 0xFB03, 0xFB03, 0xFB03, 0xFB03, 0};
        rc = sc == 33 ? _wcsnatcmp_s_chk(L"file10", 10, ffi, 9, 1, &r, (size_t)-1, (size_t)-1) : _wcsnatcmp_s_chk(ffi, 9, L"FILE9", 10, 1, &r, (size_t)-1, (size_t)-1);
        failure = rc != 0; cleared = 1;
    } break;
    case 35: case 36: case 37: case 38: case 39: case 40: { /* heap scratch (long plain part) and the sequence buffers of the reorder / compose steps (long mark run) live together */
        rsize_t len = 0;
        int marks = (sc % 2) ? 13 : 23;
        int mode = sc <= 36 ? WCSNORM_NFD : sc <= 38 ? WCSNORM_NFC : WCSNORM_FCC;
        for (i = 0; i < 110; i++) wsrc[i] = L'a' + i % 26;
        for (i = 110; i < 110 + marks; i++) wsrc[i] = (i % 2) ? 0x0301 : 0x0323;
        wsrc[110 + marks] = L'z';
        wsrc[111 + marks] = 0;
        rc = wcsnorm_s(wdest, 400, wsrc, mode, &len); failure = rc != 0; cleared = wdest[0] == 0;
    } break;
    default: fprintf(stderr, "unknown scenario\n"); return 2;
    }
    armed = 0;
    fputs(evbuf, stdout);
    { int i; fprintf(stderr, "SITES"); for (i = 0; i < nsites; i++) fprintf(stderr, " %p", sites[i]); fprintf(stderr, "\n"); }
    printf("{\"e\":\"ret\",\"failure\":%s,\"cleared\":%s,\"rc\":%ld,\"hcount\":%d}\n", failure ? "true" : "false", cleared ? "true" : "false", rc, hcount);
    return 0;
}

#include <stdarg.h>
long halloc_v(int which, wchar_t *d, rsize_t n, const wchar_t *f, ...) {
    va_list ap;
    long r;
    va_start(ap, f);
    if (which == 8) r = vswprintf_s(d, n, f, ap);
    else r = vsnwprintf_s(d, n, f, ap);
    va_end(ap);
    return r;
}
