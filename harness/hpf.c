/* hpf: executor/recorder for the formatted I/O families (printf_s and scanf_s, narrow and wide).
 *
 * stdin: one case per line
 *   id fn dmax dnull fnull loc nfmt f1..fn ninp i1..in nargs <arg>...
 *   <arg> :=  i <int64> | d <hexfloat> | L <long double text> | s <n> c1..cn (n = -1: NULL)
 *           | S <n> c1..cn (wide string) | n <bytes>  (pointer to a sentinel slot of that size)
 *           | b <bytes>  (pointer to a scratch buffer of that size, for scanf %s/%c targets)
 * stdout is taken over for printf_s/wprintf_s; events go to the original stdout (fd 3 copy).
 * One JSON event per case.  No expectations in here; libc's vsnprintf result for the same
 * arguments is logged as "ref" (a cross-check of the TLA+ oracle, not the oracle).
 */
#include "hcommon.h"
#include <stdarg.h>
#include <math.h>
#include <fcntl.h>
#include <sys/stat.h>
#include "safe_lib.h"
#include "hpf_calls.h"

#define MAXA 12
typedef struct {
    char t;
    long i;
    double d;
    long double L;
    int sn;          /* string length, -1 NULL */
    int unterm;      /* placed without a terminator in front of an inaccessible page */
    long sv[300];
    int bytes;       /* sentinel size */
    void *ptr;       /* realised pointer for s/S/n/b */
} arg_t;

static FILE *evout;
static int outfd; /* memfd standing in for stdout */
static int infd;  /* memfd standing in for stdin */

static int is_wide(const char *fn) { return strchr(fn, 'w') != NULL && strncmp(fn, "sw", 2) != 0 ? 1 : (strstr(fn, "wprintf") || strstr(fn, "wscanf")) ? 1 : 0; }
static int is_scan(const char *fn) { return strstr(fn, "scanf") != NULL; }

/* sentinel memory: slots of 16 bytes filled with 0xC3 */
static unsigned char sent[MAXA][16];
static unsigned char scratch[MAXA][64];

static long call_v_narrow(int which, void *a1, long a2, const void *fmt, ...) {
    va_list ap;
    long r = -99999;
    va_start(ap, fmt);
    switch (which) {
    case 0: r = _vsprintf_s_chk(a1, (rsize_t)a2, BOSU, fmt, ap); break;
    case 1: r = _vsnprintf_s_chk(a1, (rsize_t)a2, BOSU, fmt, ap); break;
    case 2: r = vprintf_s(fmt, ap); break;
    case 3: r = vfprintf_s(a1, fmt, ap); break;
    case 4: r = _vswprintf_s_chk(a1, (rsize_t)a2, BOSU, fmt, ap); break;
    case 5: r = _vsnwprintf_s_chk(a1, (rsize_t)a2, BOSU, fmt, ap); break;
    case 6: r = vwprintf_s(fmt, ap); break;
    case 7: r = vfwprintf_s(a1, fmt, ap); break;
    case 8: r = vsscanf_s(a1, fmt, ap); break;
    case 9: r = vfscanf_s(a1, fmt, ap); break;
    case 10: r = vscanf_s(fmt, ap); break;
    case 11: r = vswscanf_s(a1, fmt, ap); break;
    case 12: r = vfwscanf_s(a1, fmt, ap); break;
    case 13: r = vwscanf_s(fmt, ap); break;
    case 14: r = vsnprintf(a1, (size_t)a2, fmt, ap); break; /* libc reference */
    }
    va_end(ap);
    return r;
}

static void put_arr(FILE *o, const char *k, const long *v, int n) {
    int i;
    fprintf(o, "\"%s\":[", k);
    for (i = 0; i < n; i++) fprintf(o, "%s%ld", i ? "," : "", v[i]);
    fprintf(o, "]");
}

static void exact_double(FILE *o, long double x, int isld) {
    char buf[128];
    int i, n = 0;
    if (isnan(x)) { fprintf(o, "{\"cls\":\"nan\",\"neg\":%s,\"dig\":[],\"e10\":0}", signbit(x) ? "true" : "false"); return; }
    if (isinf(x)) { fprintf(o, "{\"cls\":\"inf\",\"neg\":%s,\"dig\":[],\"e10\":0}", signbit(x) ? "true" : "false"); return; }
    /* 45 significant digits, correctly rounded by glibc: enough to decide "within one unit of the last
       printed digit" for every precision the cases use (<= 20) */
    if (isld) snprintf(buf, sizeof buf, "%.44Le", fabsl(x));
    else snprintf(buf, sizeof buf, "%.44e", (double)fabsl(x));
    fprintf(o, "{\"cls\":\"%s\",\"neg\":%s,\"dig\":[", x == 0 ? "zero" : "fin", signbit(x) ? "true" : "false");
    for (i = 0; buf[i] && buf[i] != 'e'; i++)
        if (buf[i] >= '0' && buf[i] <= '9') fprintf(o, "%s%d", n++ ? "," : "", buf[i] - '0');
    fprintf(o, "],\"e10\":%d}", atoi(strchr(buf, 'e') + 1));
}

int main(int argc, char **argv) {
    region_t R, U, F8, FW;
    char *NOZ;
    long id;
    char fn[40];
    (void)argc; (void)argv;
    /* events go to a private copy of the original stdout; fd 1 becomes a memfd */
    evout = fdopen(dup(1), "w");
    outfd = memfd_create("hpf-out", 0);
    infd = memfd_create("hpf-in", 0);
    dup2(outfd, 1);
    h_install_signals();
    h_install_handlers();
    R = h_region(8);
    U = h_region(1);        /* string arguments without a terminator: flush against its inaccessible page */
    F8 = h_region(2);       /* the format string: its terminator is the last element in front of an inaccessible page */
    FW = h_region(8);
    NOZ = h_nozone();
    {
        FILE *cin = fdopen(dup(0), "r");
        dup2(infd, 0);
        while (fscanf(cin, "%ld %39s", &id, fn) == 2) {
            long dmax, fmtv[400], inpv[400];
            int dnull, fnull, loc, nfmt, ninp, nargs, i, j, wide, scan;
            arg_t A[MAXA];
            long I[16];
            double D[8];
            long double LD[2];
            int ni = 0, nd = 0, nl = 0;
            char *fmt8;
            wchar_t *fmtw;
            char inp8[400];
            wchar_t inpw[400];
            char *dest = NULL;
            long post[160];
            int npost = 0;
            long rc = -99999;
            int fk = 0;
            FILE *stream = NULL;
            char outbuf[600];
            long outn = 0;
            long ref_n = -99999;
            char ref[600];
            int target; /* 0 buffer, 1 stdout, 2 stream */
            void *fnptr = NULL;
            int vwhich = -1;
            fscanf(cin, "%ld %d %d %d %d", &dmax, &dnull, &fnull, &loc, &nfmt);
            for (i = 0; i < nfmt; i++) fscanf(cin, "%ld", &fmtv[i]);
            fscanf(cin, "%d", &ninp);
            for (i = 0; i < ninp; i++) fscanf(cin, "%ld", &inpv[i]);
            fscanf(cin, "%d", &nargs);
            memset(sent, 0xC3, sizeof sent);
            memset(scratch, 0xC3, sizeof scratch);
            for (i = 0; i < nargs; i++) {
                char t[4];
                fscanf(cin, "%3s", t);
                A[i].t = t[0];
                A[i].ptr = NULL; A[i].unterm = 0;
                switch (t[0]) {
                case 'i': fscanf(cin, "%ld", &A[i].i); break;
                case 'd': { char b[64]; fscanf(cin, "%63s", b); A[i].d = strtod(b, NULL); } break;
                case 'L': { char b[64]; fscanf(cin, "%63s", b); A[i].L = strtold(b, NULL); } break;
                case 's': case 'S':
                    fscanf(cin, "%d", &A[i].sn);
                    for (j = 0; j < A[i].sn; j++) fscanf(cin, "%ld", &A[i].sv[j]);
                    if (A[i].sn >= 0) {
                        if (t[0] == 's') { char *p = malloc(A[i].sn + 1); for (j = 0; j < A[i].sn; j++) p[j] = (char)A[i].sv[j]; p[A[i].sn] = 0; A[i].ptr = p; }
                        else { wchar_t *p = malloc((A[i].sn + 1) * sizeof(wchar_t)); for (j = 0; j < A[i].sn; j++) p[j] = (wchar_t)A[i].sv[j]; p[A[i].sn] = 0; A[i].ptr = p; }
                    }
                    break;
                case 'u':   /* a narrow string argument of exactly sn bytes and no terminator, the next byte is inaccessible (%.Ns must not look at it) */
                    fscanf(cin, "%d", &A[i].sn);
                    for (j = 0; j < A[i].sn; j++) fscanf(cin, "%ld", &A[i].sv[j]);
                    { char *q = U.rw + U.rwlen - A[i].sn; for (j = 0; j < A[i].sn; j++) q[j] = (char)A[i].sv[j]; A[i].ptr = q; }
                    A[i].t = 's'; A[i].unterm = 1;
                    break;
                case 'n': fscanf(cin, "%d", &A[i].bytes); A[i].ptr = sent[i]; break;
                case 'b': fscanf(cin, "%d", &A[i].bytes); A[i].ptr = scratch[i]; break;
                }
            }
            wide = is_wide(fn);
            scan = is_scan(fn);
            setlocale(LC_ALL, loc ? "C.UTF-8" : "C");
            {   /* an element 100000 + k stands for a run of k blanks (formats longer than RSIZE_MAX_STR; the event keeps the short form) */
                long xl = 0, q;
                for (i = 0; i < nfmt; i++) xl += fmtv[i] >= 100000 ? fmtv[i] - 100000 : 1;
                fmt8 = F8.rw + F8.rwlen - (xl + 1);
                fmtw = (wchar_t *)(FW.rw + FW.rwlen) - (xl + 1);
                for (i = 0, j = 0; i < nfmt; i++) {
                    if (fmtv[i] >= 100000) for (q = 0; q < fmtv[i] - 100000; q++, j++) { fmt8[j] = ' '; fmtw[j] = L' '; }
                    else { fmt8[j] = (char)fmtv[i]; fmtw[j] = (wchar_t)fmtv[i]; j++; }
                }
                fmt8[xl] = 0; fmtw[xl] = 0;
            }
            for (i = 0; i < ninp; i++) { inp8[i] = (char)inpv[i]; inpw[i] = (wchar_t)inpv[i]; }
            inp8[ninp] = 0; inpw[ninp] = 0;
            /* target kind */
            if (!strcmp(fn, "printf_s") || !strcmp(fn, "vprintf_s") || !strcmp(fn, "wprintf_s") || !strcmp(fn, "vwprintf_s")) target = 1;
            else if (fn[0] == 'f' || !strncmp(fn, "vf", 2)) target = 2;
            else target = 0;
            /* destination buffer: dmax elements flush against the trailing guard page, dirty */
            if (target == 0 && !scan) {
                long w = wide ? (long)sizeof(wchar_t) : 1, nb = (dmax > 0 ? dmax : 0) * w;
                memset(R.rw, 0xA5, R.rwlen);
                dest = dnull ? NULL : (dmax < 0 ? NOZ : R.rw + R.rwlen - nb);
            }
            if (target == 2) stream = tmpfile();
            if (scan && target == 2) {
                if (wide) { for (i = 0; i < ninp; i++) fputwc(inpw[i], stream); }
                else fwrite(inp8, 1, ninp, stream);
                rewind(stream);
            }
            if (scan && target == 1) {
                ftruncate(infd, 0);
                if (wide) { char mb[8]; int k; long off = 0; for (i = 0; i < ninp; i++) { k = wctomb(mb, inpw[i]); if (k > 0) { pwrite(infd, mb, k, off); off += k; } } }
                else pwrite(infd, inp8, ninp, 0);
                lseek(infd, 0, SEEK_SET);
                rewind(stdin); clearerr(stdin);
            }
            /* argument vectors: fixed arguments first (all integer class), then the variadic ones grouped */
            #define PUSHI(x) I[ni++] = (long)(x)
            {
                const size_t kbos = H_KBOS(id, dest && dest != NOZ && dmax > 0, (size_t)dmax * (wide ? sizeof(wchar_t) : 1));
                rsize_t rd = wide ? (dmax < 0 ? RSIZE_MAX_WSTR + 1 : (rsize_t)dmax) : (dmax < 0 ? RSIZE_MAX_STR + 1 : (rsize_t)dmax);
                const void *f = fnull ? NULL : (wide ? (const void *)fmtw : (const void *)fmt8);
                if (!strcmp(fn, "sprintf_s")) { fnptr = (void *)_sprintf_s_chk; PUSHI(dest); PUSHI(rd); PUSHI(kbos); PUSHI(f); }
                else if (!strcmp(fn, "snprintf_s")) { fnptr = (void *)_snprintf_s_chk; PUSHI(dest); PUSHI(rd); PUSHI(kbos); PUSHI(f); }
                else if (!strcmp(fn, "printf_s")) { fnptr = (void *)printf_s; PUSHI(f); }
                else if (!strcmp(fn, "fprintf_s")) { fnptr = (void *)fprintf_s; PUSHI(stream); PUSHI(f); }
                else if (!strcmp(fn, "swprintf_s")) { fnptr = (void *)_swprintf_s_chk; PUSHI(dest); PUSHI(rd); PUSHI(kbos); PUSHI(f); }
                else if (!strcmp(fn, "snwprintf_s")) { fnptr = (void *)_snwprintf_s_chk; PUSHI(dest); PUSHI(rd); PUSHI(kbos); PUSHI(f); }
                else if (!strcmp(fn, "wprintf_s")) { fnptr = (void *)wprintf_s; PUSHI(f); }
                else if (!strcmp(fn, "fwprintf_s")) { fnptr = (void *)fwprintf_s; PUSHI(stream); PUSHI(f); }
                else if (!strcmp(fn, "sscanf_s")) { fnptr = (void *)sscanf_s; PUSHI(inp8); PUSHI(f); }
                else if (!strcmp(fn, "fscanf_s")) { fnptr = (void *)fscanf_s; PUSHI(stream); PUSHI(f); }
                else if (!strcmp(fn, "scanf_s")) { fnptr = (void *)scanf_s; PUSHI(f); }
                else if (!strcmp(fn, "swscanf_s")) { fnptr = (void *)swscanf_s; PUSHI(inpw); PUSHI(f); }
                else if (!strcmp(fn, "fwscanf_s")) { fnptr = (void *)fwscanf_s; PUSHI(stream); PUSHI(f); }
                else if (!strcmp(fn, "wscanf_s")) { fnptr = (void *)wscanf_s; PUSHI(f); }
                else {
                    /* v-variants through our own variadic wrapper (4 fixed integer-class arguments) */
                    static const char *vn[] = {"vsprintf_s", "vsnprintf_s", "vprintf_s", "vfprintf_s", "vswprintf_s", "vsnwprintf_s", "vwprintf_s", "vfwprintf_s",
                                               "vsscanf_s", "vfscanf_s", "vscanf_s", "vswscanf_s", "vfwscanf_s", "vwscanf_s"};
                    for (i = 0; i < 14; i++) if (!strcmp(fn, vn[i])) vwhich = i;
                    if (vwhich < 0) { fprintf(stderr, "unknown fn %s\n", fn); return 2; }
                    fnptr = (void *)call_v_narrow;
                    PUSHI(vwhich);
                    if (vwhich == 3 || vwhich == 7 || vwhich == 9 || vwhich == 12) { PUSHI(stream); PUSHI(0); }
                    else if (vwhich == 8) { PUSHI(inp8); PUSHI(0); }
                    else if (vwhich == 11) { PUSHI(inpw); PUSHI(0); }
                    else { PUSHI(dest); PUSHI(rd); }
                    PUSHI(f);
                }
            }
            for (i = 0; i < nargs; i++) {
                switch (A[i].t) {
                case 'i': PUSHI(A[i].i); break;
                case 'd': D[nd++] = A[i].d; break;
                case 'L': LD[nl++] = A[i].L; break;
                default: PUSHI(A[i].ptr); break;
                }
            }
            /* libc reference for the narrow printf family (same argument vectors) */
            if (!wide && !scan && !fnull) {
                long RI[16];
                int rni = 0;
                RI[rni++] = 14; RI[rni++] = (long)ref; RI[rni++] = (long)sizeof ref; RI[rni++] = (long)fmt8;
                for (i = 0; i < nargs; i++) if (A[i].t != 'd' && A[i].t != 'L') RI[rni++] = (A[i].t == 'i') ? A[i].i : (long)A[i].ptr;
                if (!memchr(fmt8, 'n', nfmt) || 1) {
                    int hasn = 0;
                    for (i = 0; i < nargs; i++) if (A[i].t == 'n') hasn = 1;
                    if (!hasn) {
                        int bad = 0;
                        for (i = 0; i < nargs; i++) if ((A[i].t == 's' || A[i].t == 'S') && A[i].sn < 0) bad = 1;
                        if (!bad) ref_n = gcall((void *)call_v_narrow, rni, RI, nd, D, nl, LD);
                    }
                }
            }
            h_n = 0; errno = H_ERRNO_PRE(id); h_fault_kind = 0;
            ftruncate(outfd, 0); lseek(outfd, 0, SEEK_SET);
            fprintf(evout, "#%ld\n", id); fflush(evout);
            if (!sigsetjmp(h_jb, 1)) {
                h_armed = 1; alarm(5);
                rc = gcall(fnptr, ni, I, nd, D, nl, LD);
                alarm(0); h_armed = 0;
            } else { alarm(0); fk = h_fault_kind; }
            {
                int en = errno;
                long foff = 0;
                if (fk == 1 || fk == 2) foff = dest ? (h_fault_addr - dest) / (wide ? (long)sizeof(wchar_t) : 1) + 1 : 0;
                /* collect output */
                if (target == 1 && !scan) { fflush(stdout); outn = pread(outfd, outbuf, sizeof outbuf, 0); }
                if (target == 2 && !scan && stream) { fflush(stream); outn = pread(fileno(stream), outbuf, sizeof outbuf, 0); }
                if (outn < 0) outn = 0;
                if (dest && dmax > 0 && dest != NOZ && !scan) {
                    npost = dmax > 160 ? 160 : (int)dmax;
                    for (i = 0; i < npost; i++) post[i] = wide ? (long)((wchar_t *)dest)[i] : (long)(unsigned char)dest[i];
                }
                fprintf(evout, "{\"id\":%ld,\"fn\":\"%s\",\"wide\":%s,\"dmax\":%ld,\"dnull\":%s,\"fnull\":%s,\"loc\":%d,", id, fn, wide ? "true" : "false", dmax,
                        dnull ? "true" : "false", fnull ? "true" : "false", loc);
                put_arr(evout, "fmt", fmtv, nfmt);
                fprintf(evout, ",");
                put_arr(evout, "inp", inpv, ninp);
                fprintf(evout, ",\"args\":[");
                for (i = 0; i < nargs; i++) {
                    fprintf(evout, "%s{\"t\":\"%c\",", i ? "," : "", A[i].t);
                    if (A[i].t == 'i') {
                        unsigned long u = (unsigned long)A[i].i;
                        fprintf(evout, "\"limbs\":[%lu,%lu,%lu,%lu]", u & 0xffff, (u >> 16) & 0xffff, (u >> 32) & 0xffff, (u >> 48) & 0xffff);
                    } else if (A[i].t == 'd' || A[i].t == 'L') {
                        fprintf(evout, "\"x\":");
                        exact_double(evout, A[i].t == 'd' ? (long double)A[i].d : A[i].L, A[i].t == 'L');
                    } else if (A[i].t == 's' || A[i].t == 'S') {
                        fprintf(evout, "\"null\":%s,", A[i].sn < 0 ? "true" : "false");
                        put_arr(evout, "s", A[i].sv, A[i].sn < 0 ? 0 : A[i].sn);
                    } else {
                        /* sentinel / scratch: was it written? */
                        unsigned char *p = A[i].ptr;
                        int ch = 0;
                        for (j = 0; j < (A[i].t == 'n' ? 16 : 64); j++) if (p[j] != 0xC3) ch = 1;
                        fprintf(evout, "\"bytes\":%d,\"changed\":%s", A[i].bytes, ch ? "true" : "false");
                    }
                    fprintf(evout, "}");
                }
                fprintf(evout, "],\"rc\":%ld,", rc);
                h_print_handlers(evout);
                fprintf(evout, ",\"errno\":%d,", en);
                put_arr(evout, "post", post, npost);
                {
                    long ob[600];
                    for (i = 0; i < outn; i++) ob[i] = (unsigned char)outbuf[i];
                    fprintf(evout, ",");
                    put_arr(evout, "out", ob, (int)outn);
                    for (i = 0; i < ref_n && i < (long)sizeof ref; i++) ob[i] = (unsigned char)ref[i];
                    fprintf(evout, ",\"refn\":%ld,", ref_n);
                    put_arr(evout, "ref", ob, ref_n > 0 ? (ref_n < (long)sizeof ref ? (int)ref_n : (int)sizeof ref - 1) : 0);
                }
                /* frame: bytes in front of dest unchanged */
                {
                    int frame_ok = 1;
                    if (target == 0 && !scan) {
                        long w = wide ? (long)sizeof(wchar_t) : 1, nb = (dmax > 0 ? dmax : 0) * w;
                        for (i = 0; i < R.rwlen - nb; i++) if ((unsigned char)R.rw[i] != 0xA5) { frame_ok = 0; break; }
                    }
                    fprintf(evout, ",\"frame_ok\":%s,\"fault\":\"%s\",\"foff\":%ld}\n", frame_ok ? "true" : "false", h_fault_name(fk), foff);
                }
            }
            fflush(evout);
            if (stream) fclose(stream);
            for (i = 0; i < nargs; i++) if ((A[i].t == 's' || A[i].t == 'S') && A[i].ptr && !A[i].unterm) free(A[i].ptr);
        }
    }
    return 0;
}
