/* hhand: lockstep executor for constraint-handler histories (C13).
 * stdin : sessions, one per line:  n  then n quadruples  op t k h
 *           op 0 = set_{str,mem}_constraint_handler_s   (k: 0 str, 1 mem; h: 0 NULL, 1 H1, 2 H2)
 *           op 1 = thrd_set_{str,mem}_constraint_handler_s
 *           op 2 = thread t creates a new thread (it gets the next id)
 *           op 3 = thread t makes a violating call of kind k (strcpy_s(NULL..) / memcpy_s(NULL..))
 * Every session runs in its own forked process (fresh library state); threads are real
 * pthreads executing exactly one command at a time under a baton, so the interleaving at
 * call granularity is the one given.  stdout: one JSON event per executed operation.
 * No expectations in here. */
#define _GNU_SOURCE
#include <stdio.h>
#include <stdlib.h>
#include <string.h>
#include <unistd.h>
#include <pthread.h>
#include <semaphore.h>
#include <sys/wait.h>
#include "safe_str_lib.h"
#include "safe_mem_lib.h"
#define MAXT 8
typedef struct { sem_t go, done; int op, k, h, child; int out_prev, out_inv, out_cnt, out_code, out_rc; int alive; pthread_t th; } W;
static W w[MAXT + 1];
static __thread int inv, cnt, code; /* which handler ran in this thread, how often, with which code */
static void H1(const char *m, void *p, errno_t e) { (void)m; (void)p; inv = 1; cnt++; code = e; }
static void H2(const char *m, void *p, errno_t e) { (void)m; (void)p; inv = 2; cnt++; code = e; }
static constraint_handler_t hs[] = {NULL, H1, H2};
static int idof(constraint_handler_t f) { return f == NULL ? 0 : f == H1 ? 1 : f == H2 ? 2 : f == ignore_handler_s ? 3 : 9; }
static void *worker(void *arg);
static void spawn(int c) {
    w[c].alive = 1;
    sem_init(&w[c].go, 0, 0);
    sem_init(&w[c].done, 0, 0);
    pthread_create(&w[c].th, NULL, worker, (void *)(long)c);
}
static void run(int t) {
    W *x = &w[t];
    switch (x->op) {
    case 0: x->out_prev = idof(x->k ? set_mem_constraint_handler_s(hs[x->h]) : set_str_constraint_handler_s(hs[x->h])); break;
    case 1: x->out_prev = idof(x->k ? thrd_set_mem_constraint_handler_s(hs[x->h]) : thrd_set_str_constraint_handler_s(hs[x->h])); break;
    case 2: spawn(x->child); break; /* created by THIS thread */
    case 3: {
        char d[4];
        inv = 0; cnt = 0; code = 0;
        if (x->k) x->out_rc = memcpy_s(NULL, 4, d, 1);
        else x->out_rc = strcpy_s(NULL, 4, "a");
        x->out_inv = inv ? inv : 3; /* 3 = no user handler ran: the default */
        x->out_cnt = inv ? cnt : 1;
        x->out_code = inv ? code : x->out_rc;
    } break;
    }
}
static void *worker(void *arg) {
    int t = (long)arg;
    for (;;) {
        sem_wait(&w[t].go);
        if (w[t].op < 0) break;
        run(t);
        sem_post(&w[t].done);
    }
    return NULL;
}
static void cmd(int t, int op, int k, int h, int child) {
    w[t].op = op; w[t].k = k; w[t].h = h; w[t].child = child;
    if (t == 1) run(1);
    else { sem_post(&w[t].go); sem_wait(&w[t].done); }
}
int main(void) {
    long sid, id = 0;
    int n;
    while (scanf("%ld %d", &sid, &n) == 2) {
        static int ops[4096][4];
        int i;
        pid_t pid;
        if (n > 4096) return 2;
        for (i = 0; i < n; i++)
            if (scanf("%d %d %d %d", &ops[i][0], &ops[i][1], &ops[i][2], &ops[i][3]) != 4) return 2;
        fflush(stdout);
        pid = fork();
        if (pid == 0) {
            int nthr = 1;
            long eid = sid * 10000;
            memset(w, 0, sizeof w);
            w[1].alive = 1;
            alarm(20);
            printf("{\"e\":\"Reset\",\"id\":%ld,\"sid\":%ld}\n", eid++, sid);
            for (i = 0; i < n; i++) {
                int op = ops[i][0], t = ops[i][1], k = ops[i][2], h = ops[i][3];
                if (t < 1 || t > MAXT || !w[t].alive) continue;
                if (op == 2) {
                    int c;
                    if (nthr >= MAXT) continue;
                    c = ++nthr;
                    cmd(t, 2, 0, 0, c);
                    printf("{\"e\":\"spawn\",\"id\":%ld,\"sid\":%ld,\"t\":%d,\"c\":%d}\n", eid++, sid, t, c);
                } else if (op == 3) {
                    cmd(t, 3, k, 0, 0);
                    printf("{\"e\":\"viol\",\"id\":%ld,\"sid\":%ld,\"t\":%d,\"k\":%d,\"inv\":%d,\"cnt\":%d,\"codeok\":%s}\n", eid++, sid, t, k,
                           w[t].out_inv, w[t].out_cnt, (w[t].out_code == w[t].out_rc && w[t].out_rc == ESNULLP) ? "true" : "false");
                } else {
                    cmd(t, op, k, h, 0);
                    printf("{\"e\":\"%s\",\"id\":%ld,\"sid\":%ld,\"t\":%d,\"k\":%d,\"h\":%d,\"prev\":%d}\n", op == 0 ? "setg" : "sett", eid++, sid, t, k, h,
                           w[t].out_prev);
                }
            }
            fflush(stdout);
            _exit(0);
        } else {
            int st;
            waitpid(pid, &st, 0);
            if (!WIFEXITED(st) || WEXITSTATUS(st) != 0) {
                printf("{\"e\":\"crash\",\"id\":%ld,\"sid\":%ld}\n", sid * 10000 + 9999, sid);
            }
        }
        (void)id;
    }
    return 0;
}
