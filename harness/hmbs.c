/* hmbs: executor/recorder for the multibyte <-> wide conversion functions (C15).
 * stdin, one call per line:
 *   id fn loc dmax len dn flags nsrc v1..vnsrc
 *   fn: 1 mbstowcs_s 2 mbsrtowcs_s 3 wcstombs_s 4 wcsrtombs_s 5 wcrtomb_s 6 wctomb_s
 *   loc: 0 "C", 1 "C.UTF-8";  dn: 1 = dest is a null pointer
 *   flags: 1 continue (use *srcp and ps as the previous line left them; the source buffer is kept)
 *          2 keep ps (fresh source, the conversion state object of the previous line)
 *          4 retvalp null   8 src / srcp null   16 ps null   32 *srcp null
 *   the source (bytes for fn 1,2; wide characters for 3,4; one wide character for 5,6) is given with its terminator.
 * dest and the source each lie flush against an inaccessible page.  Next to every call the corresponding
 * standard function is run on a private buffer with the same len and a copy of the state, and its result is
 * recorded as well (lcnt, lout, lpos).  No expectations in here. */
#include "hcommon.h"

#define SENT8 0x5C
#define SENT32 0x5C5C5C5Cu
#define CLAMP(v) ((v) == (size_t)-1 ? -1L : ((v) > 1000000000UL ? 1000000000L : (long)(v)))

static mbstate_t g_ps;
static const char *g_mbp;      /* *srcp of the previous restartable call */
static const wchar_t *g_wcp;
static char *g_mbsrc;          /* start of the current source */
static wchar_t *g_wcsrc;
static long g_nsrc;

int main(void) {
    region_t D, S;
    long id, fn, loc, dmax, len, dn, flags, nsrc, i;
    int curloc = -1;
    char *noz;
    h_install_signals();
    h_install_handlers();
    D = h_region(4);
    S = h_region(4);
    noz = h_nozone();
    while (scanf("%ld %ld %ld %ld %ld %ld %ld %ld", &id, &fn, &loc, &dmax, &len, &dn, &flags, &nsrc) == 8) {
        static long v[4096];
        int wide_dest = (fn == 1 || fn == 2);
        int esz = wide_dest ? 4 : 1;
        int cont = flags & 1;
        char *dest;
        long rc = -9999, start = 1, pos = -2, lpos = -2, lcnt = -2;
        size_t ret = 777777, lret = 0;
        int iret = 777777;
        int fk = 0, frame_ok = 1, psinit = 1, ps0 = 1;
        static uint32_t lbuf32[160];
        static unsigned char lbuf8[160];
        long lstored = 0;
        mbstate_t lps;
        for (i = 0; i < nsrc; i++) scanf("%ld", &v[i]);
        if (loc != curloc) {
            if (!setlocale(LC_ALL, loc ? "C.UTF-8" : "C")) { fprintf(stderr, "setlocale failed\n"); return 3; }
            curloc = (int)loc;
        }
        if (!cont) {
            g_nsrc = nsrc;
            if (fn <= 2) {
                g_mbsrc = S.rw + S.rwlen - nsrc;
                for (i = 0; i < nsrc; i++) g_mbsrc[i] = (char)v[i];
                g_mbp = g_mbsrc;
            } else {
                g_wcsrc = (wchar_t *)(S.rw + S.rwlen) - nsrc;
                for (i = 0; i < nsrc; i++) g_wcsrc[i] = (wchar_t)v[i];
                g_wcp = g_wcsrc;
            }
            if (!(flags & 2)) memset(&g_ps, 0, sizeof g_ps);
        }
        if (flags & 32) { g_mbp = 0; g_wcp = 0; }
        if (fn == 2) start = g_mbp ? (g_mbp - g_mbsrc) + 1 : 0;
        if (fn == 4) start = g_wcp ? (g_wcp - g_wcsrc) + 1 : 0;
        ps0 = mbsinit(&g_ps) ? 1 : 0;
        /* the standard function on a private copy */
        memset(lbuf8, SENT8, sizeof lbuf8);
        for (i = 0; i < 160; i++) lbuf32[i] = SENT32;
        lps = g_ps;
        if (len <= 128 && !(flags & (8 | 32)) && start != 0) {
            errno = 0;
            if (fn == 1) { lret = mbstowcs(dn ? 0 : (wchar_t *)lbuf32, g_mbsrc, (size_t)len); }
            else if (fn == 2) { const char *p = g_mbp; lret = mbsrtowcs(dn ? 0 : (wchar_t *)lbuf32, &p, (size_t)len, &lps); lpos = p ? (p - g_mbsrc) + 1 : 0; }
            else if (fn == 3) { lret = wcstombs(dn ? 0 : (char *)lbuf8, g_wcsrc, (size_t)len); }
            else if (fn == 4) { const wchar_t *p = g_wcp; lret = wcsrtombs(dn ? 0 : (char *)lbuf8, &p, (size_t)len, &lps); lpos = p ? (p - g_wcsrc) + 1 : 0; }
            else if (fn == 5) { lret = wcrtomb((char *)lbuf8, g_wcsrc[0], &lps); }
            else { int r = wctomb((char *)lbuf8, g_wcsrc[0]); lret = r < 0 ? (size_t)-1 : (size_t)r; wctomb(0, 0); }
            lcnt = CLAMP(lret);
        }
        /* dest */
        memset(D.rw, SENT8, D.rwlen);
        if (dn) dest = 0;
        else if (dmax > 512 || dmax < 0) dest = noz;
        else dest = D.rw + D.rwlen - dmax * esz;
        h_n = 0; errno = H_ERRNO_PRE(id); h_fault_kind = 0;
        printf("#%ld\n", id); fflush(stdout);
        if (!sigsetjmp(h_jb, 1)) {
            size_t *rp = (flags & 4) ? 0 : &ret;
            /* flag 64: the library is told the (true) size of the destination object */
            const size_t KB = ((flags & 64) && dest && dest != noz) ? (size_t)dmax * esz : BOSU;
            mbstate_t *psp = (flags & 16) ? 0 : &g_ps;
            h_armed = 1; alarm(5);
            switch (fn) {
            case 1: rc = _mbstowcs_s_chk(rp, (wchar_t *)dest, (rsize_t)dmax, (flags & 8) ? 0 : g_mbsrc, (rsize_t)len, KB); break;
            case 2: rc = _mbsrtowcs_s_chk(rp, (wchar_t *)dest, (rsize_t)dmax, (flags & 8) ? 0 : &g_mbp, (rsize_t)len, psp, KB); break;
            case 3: rc = _wcstombs_s_chk(rp, dest, (rsize_t)dmax, (flags & 8) ? 0 : g_wcsrc, (rsize_t)len, KB); break;
            case 4: rc = _wcsrtombs_s_chk(rp, dest, (rsize_t)dmax, (flags & 8) ? 0 : &g_wcp, (rsize_t)len, psp, KB); break;
            case 5: rc = _wcrtomb_s_chk(rp, dest, (rsize_t)dmax, g_wcsrc[0], psp, KB); break;
            case 6: rc = _wctomb_s_chk((flags & 4) ? 0 : &iret, dest, (rsize_t)dmax, g_wcsrc[0], KB); ret = iret < 0 ? (size_t)-1 : (size_t)iret; break;
            }
            alarm(0); h_armed = 0;
        } else { alarm(0); fk = h_fault_kind; }
        if (fn == 2) pos = g_mbp ? (g_mbp - g_mbsrc) + 1 : 0;
        if (fn == 4) pos = g_wcp ? (g_wcp - g_wcsrc) + 1 : 0;
        if (pos > g_nsrc + 1 || pos < -2) pos = -3;     /* somewhere else */
        psinit = mbsinit(&g_ps) ? 1 : 0;
        {   /* everything in front of dest must be untouched */
            long lim = (dest && dest != noz) ? (dest - D.rw) : D.rwlen;
            for (i = 0; i < lim; i++) if ((unsigned char)D.rw[i] != SENT8) { frame_ok = 0; break; }
        }
        printf("{\"id\":%ld,\"fn\":%ld,\"loc\":\"%s\",\"dmax\":%ld,\"len\":%ld,\"dn\":%ld,\"flags\":%ld,\"start\":%ld,\"src\":[", id, fn, loc ? "UTF8" : "C", dmax, len, dn, flags, start);
        for (i = 0; i < g_nsrc; i++) printf("%s%ld", i ? "," : "", fn <= 2 ? (long)(unsigned char)g_mbsrc[i] : (long)(uint32_t)g_wcsrc[i]);
        printf("],\"post\":[");
        if (dest && dest != noz && fk != 2)
            for (i = 0; i < dmax && i < 100; i++) {
                long e = wide_dest ? (long)((uint32_t *)dest)[i] : (long)(unsigned char)dest[i];
                if (wide_dest && (uint32_t)e == SENT32) e = -1;
                printf("%s%ld", i ? "," : "", e > 1500000000L ? 1500000000L : e);
            }
        printf("],\"rc\":%ld,\"ret\":%ld,\"pos\":%ld,\"psinit\":%d,\"ps0\":%d,\"lcnt\":%ld,\"lpos\":%ld,\"lout\":[", rc, CLAMP(ret), pos, psinit, ps0, lcnt, lpos);
        lstored = (lcnt >= 0 && !dn) ? lcnt + 1 : 0;
        if (fn >= 5 && lcnt >= 0) lstored = lcnt;
        for (i = 0; i < lstored && i < 150; i++) {
            long e = wide_dest ? (long)lbuf32[i] : (long)lbuf8[i];
            if (wide_dest && (uint32_t)e == SENT32) e = -1;
            printf("%s%ld", i ? "," : "", e);
        }
        printf("],");
        h_print_handlers(stdout);
        printf(",\"frame_ok\":%s,\"fault\":\"%s\"}\n", frame_ok ? "true" : "false", h_fault_name(fk));
        fflush(stdout);
    }
    return 0;
}
