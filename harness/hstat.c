/* hstat: static-footprint observer (C12).  Linked against the library built as a private shared
 * object (-z now, no lazy PLT writes).  For every probe: one warm-up call (with other arguments AND another
 * format / flags / sizes, so that scratch keyed by either shows up), a snapshot of the
 * library's writable PT_LOAD segments (.data/.bss), a second call with different input, and a
 * byte-wise comparison.  Output: one JSON event per probe with the number of changed bytes and the
 * first changed offsets (relative to the load base, for symbol lookup by the driver).
 * The program records; TraceThreads.tla judges (delta must be empty). */
#define _GNU_SOURCE
#include <stdio.h>
#include <stdlib.h>
#include <string.h>
#include <wchar.h>
#include <locale.h>
#include <time.h>
#include <link.h>
#include <stdarg.h>
#include <fcntl.h>
#include "safe_lib.h"
#include "safe_str_lib.h"
#include "safe_mem_lib.h"

static struct { char *addr; size_t len; } seg[8];
static int nseg;
static char *base;
static unsigned char *snap[8];

static int cb(struct dl_phdr_info *info, size_t size, void *data) {
    int i;
    (void)size; (void)data;
    if (!info->dlpi_name || !strstr(info->dlpi_name, "libsafec_v")) return 0;
    base = (char *)info->dlpi_addr;
    for (i = 0; i < info->dlpi_phnum; i++) {
        const ElfW(Phdr) *ph = &info->dlpi_phdr[i];
        if (ph->p_type == PT_LOAD && (ph->p_flags & PF_W) && nseg < 8) {
            seg[nseg].addr = base + ph->p_vaddr;
            seg[nseg].len = ph->p_memsz;
            nseg++;
        }
    }
    return 1;
}
static void take(void) { int i; for (i = 0; i < nseg; i++) memcpy(snap[i], seg[i].addr, seg[i].len); }
static long diff(long *offs, int maxo) {
    long n = 0;
    int i;
    size_t j;
    for (i = 0; i < nseg; i++)
        for (j = 0; j < seg[i].len; j++)
            if ((unsigned char)seg[i].addr[j] != snap[i][j]) {
                if (n < maxo) offs[n] = (seg[i].addr + j) - base;
                n++;
            }
    return n;
}

static void hnd(const char *m, void *p, errno_t e) { (void)m; (void)p; (void)e; }
static int cmp_int(const void *a, const void *b, void *ctx) { (void)ctx; return *(const int *)a - *(const int *)b; }
static int cmp_big(const void *a, const void *b, void *ctx) { (void)ctx; return memcmp(a, b, 4); }

static char d[512], s[512];
static wchar_t wd[2048], ws[2048];
static long vcall(int which, ...) {
    va_list ap; long r = 0;
    va_start(ap, which);
    switch (which) {
    case 0: r = vsprintf_s(d, 64, "%d %s", ap); break;
    case 1: r = vsnprintf_s(d, 64, "%d %s", ap); break;
    case 2: r = vswprintf_s(wd, 64, L"%d %ls", ap); break;
    case 3: r = vsnwprintf_s(wd, 64, L"%d %ls", ap); break;
    case 4: r = vswprintf_s(wd, 8, L"%d %ls", ap); break;      /* does not fit: no-space probe */
    case 5: r = vsnwprintf_s(wd, 8, L"%d %ls", ap); break;
    }
    va_end(ap);
    return r;
}

typedef void (*probe_t)(int v);
#define P(name) static void p_##name(int v)
#define STR(v) ((v) ? "second input" : "first")
#define WSTR(v) ((v) ? L"second input" : L"first")
P(strcpy_s) { strcpy_s(d, 64, STR(v)); }
P(strncpy_s) { strncpy_s(d, 64, STR(v), 5 + v); }
P(strcat_s) { d[0] = 0; strcat_s(d, 64, STR(v)); }
P(strncat_s) { d[0] = 0; strncat_s(d, 64, STR(v), 4 + v); }
P(stpcpy_s) { errno_t e; stpcpy_s(d, 64, STR(v), &e); }
P(strcpy_err) { strcpy_s(d, 3, "too long for dest"); (void)v; }
P(memcpy_s) { memcpy_s(d, 64, STR(v), 5); }
P(memmove_s) { memmove_s(d, 64, d + 1, 10 + v); }
P(memset_s) { memset_s(d, 64, 'a' + v, 20 + v); }
P(memzero_s) { memzero_s(d, 30 + v); }
P(memcpy_err) { memcpy_s(d, 4, s, 100); (void)v; }
P(strnlen_s) { strnlen_s(STR(v), 64); }
P(strcmp_s) { int r; strcmp_s(STR(v), 64, "first", &r); }
P(strstr_s) { char *r; strcpy(d, STR(v)); strstr_s(d, 64, "in", 2, &r); }
P(strtok_s) { rsize_t n = 30; char *ctx; strcpy(d, v ? "a,b;c" : "x y"); strtok_s(d, &n, ",; ", &ctx); strtok_s(NULL, &n, ",; ", &ctx); }
P(wcstok_s) { rsize_t n = 30; wchar_t *ctx; wcscpy(wd, v ? L"a,b;c" : L"x y"); wcstok_s(wd, &n, L",; ", &ctx); wcstok_s(NULL, &n, L",; ", &ctx); }
P(strtolowercase_s) { strcpy(d, v ? "ABC" : "Xy"); strtolowercase_s(d, 64); }
P(strerror_s) { strerror_s(d, 64, v ? 2 : 13); }
P(sprintf_int) { sprintf_s(d, 64, v ? "%5d %.3s %#x" : "%d %s %x", 12 + v, STR(v), 255 + v); }
P(sprintf_f) { sprintf_s(d, 64, v ? "%10.3f %+.1e" : "%f %e", 1.5 + v, 2.25e10 + v); }
P(sprintf_big) { sprintf_s(d, 64, v ? "%-30.2f" : "%f", 1e12 + v); }
P(sprintf_g) { sprintf_s(d, 64, v ? "%#12.4g" : "%G", 1234.5 + v); }
P(sprintf_Lf) { sprintf_s(d, 64, v ? "%+.2Lf" : "%Lf", 1.5L + v); }
P(sprintf_Le) { sprintf_s(d, 64, v ? "%#20.12Le x" : "%LE x", 2.5L + v); }
P(sprintf_Lg) { sprintf_s(d, 64, v ? "%030.15Lg" : "%Lg", 2.718281828459045L + v); }
P(sprintf_a) { sprintf_s(d, 64, v ? "%.3a" : "%A", 1.5 + v); }
P(sprintf_La) { sprintf_s(d, 64, v ? "%-24.10La y" : "%La y", 1.5L + v); }
P(sprintf_ls) { sprintf_s(d, 64, v ? "%-20.5ls|" : "%ls", WSTR(v)); }
P(snprintf_s) { snprintf_s(d, 8, v ? "%10s" : "%s", STR(v)); }
P(vsprintf_s) { vcall(0, 5 + v, STR(v)); }
P(vsnprintf_s) { vcall(1, 5 + v, STR(v)); }
P(swprintf_s) { swprintf_s(wd, 64, v ? L"%4d %.3ls" : L"%d %ls", 5 + v, WSTR(v)); }
P(swprintf_f) { swprintf_s(wd, 64, v ? L"%+.2Lf %a" : L"%Le %f", 5.5L + v, 2.5 + v); }
P(swprintf_nospc) { swprintf_s(wd, 8, L"%d %ls", 5 + v, WSTR(v)); }
P(swprintf_nospc_big) { int i; for (i = 0; i < 700; i++) ws[i] = L'a' + v; ws[700] = 0; swprintf_s(wd, 600, L"%ls", ws); }
P(snwprintf_s) { snwprintf_s(wd, 64, L"%d %ls", 5 + v, WSTR(v)); }
P(snwprintf_nospc) { snwprintf_s(wd, 8, L"%d %ls", 5 + v, WSTR(v)); }
P(vswprintf_s) { vcall(2, 5 + v, WSTR(v)); }
P(vswprintf_nospc) { vcall(4, 5 + v, WSTR(v)); }
P(vsnwprintf_s) { vcall(3, 5 + v, WSTR(v)); }
P(vsnwprintf_nospc) { vcall(5, 5 + v, WSTR(v)); }
P(sscanf_s) { int x; sscanf_s(v ? "42" : "7", v ? "%3d" : "%d", &x); }
P(qsort_small) { int a[8] = {5, 3, 8, 1, 9, 2, 7, 4}; a[0] += v; qsort_s(a, 8, sizeof(int), cmp_int, NULL); }
P(qsort_big) { static char a[6][300]; int i; for (i = 0; i < 6; i++) { memset(a[i], 'a' + ((i * 7 + v) % 5), 300); } qsort_s(a, 6, 300, cmp_big, NULL); }
P(qsort_mid) { static char a[7][40]; int i; for (i = 0; i < 7; i++) { memset(a[i], 'a' + ((i * 3 + v) % 6), 40); } qsort_s(a, 7, 40, cmp_big, NULL); }
P(bsearch_s) { int a[5] = {1, 3, 5, 7, 9}; int k = 5 + 2 * v; bsearch_s(&k, a, 5, sizeof(int), cmp_int, NULL); }
P(asctime_small) { struct tm tm; time_t t = 86400 * (365 + v); gmtime_r(&t, &tm); asctime_s(d, 30, &tm); }
P(asctime_big) { struct tm tm; time_t t = 86400 * (365 + v); gmtime_r(&t, &tm); asctime_s(d, 200, &tm); }
P(ctime_small) { time_t t = 86400 * (400 + v); ctime_s(d, 30, &t); }
P(ctime_big) { time_t t = 86400 * (400 + v); ctime_s(d, 200, &t); }
P(gmtime_s) { struct tm tm; time_t t = 86400 * (500 + v); gmtime_s(&t, &tm); }
P(localtime_s) { struct tm tm; time_t t = 86400 * (500 + v); localtime_s(&t, &tm); }
P(getenv_s) { size_t n; getenv_s(&n, d, 200, v ? "PATH" : "HOME"); }
P(mbstowcs_s) { size_t n; mbstowcs_s(&n, wd, 64, STR(v), 60); }
P(wcstombs_s) { size_t n; wcstombs_s(&n, d, 64, WSTR(v), 60); }
P(wcrtomb_s) { size_t n; mbstate_t ps; memset(&ps, 0, sizeof ps); wcrtomb_s(&n, d, 8, L'a' + v, &ps); }
P(wctomb_s) { int n; wctomb_s(&n, d, 8, L'a' + v); }
P(wcscpy_s) { wcscpy_s(wd, 64, WSTR(v)); }
P(wcsnorm_nfd) { rsize_t n; wcsnorm_s(wd, 64, v ? L"\x00e9\x0323x" : L"\x00c5", WCSNORM_NFD, &n); }
P(wcsnorm_nfc) { rsize_t n; wcsnorm_s(wd, 64, v ? L"e\x0323\x0301x" : L"A\x030a", WCSNORM_NFC, &n); }
P(wcsnorm_long) { rsize_t n; int i; for (i = 0; i < 140; i++) ws[i] = L'a' + v; ws[140] = 0; wcsnorm_s(wd, 400, ws, WCSNORM_NFC, &n); }
P(wcsnorm_marks) { rsize_t n; int i; ws[0] = L'a'; for (i = 1; i < 20; i++) ws[i] = ((i + v) % 2) ? 0x0301 : 0x0323; ws[20] = 0; wcsnorm_s(wd, 200, ws, WCSNORM_NFC, &n); }
P(wcsfc_s) { rsize_t n; wcsfc_s(wd, 64, v ? L"STRASSE\x00df" : L"Ab", &n); }
P(towfc_s) { towfc_s(wd, 8, v ? 0xdf : L'A'); }
P(wcsicmp_s) { int r; wcsicmp_s(L"Abc", 8, v ? L"aBD" : L"abc", 8, &r); }
P(wcsnatcmp_s) { int r; wcsnatcmp_s(L"file10", 10, v ? L"file9" : L"file10", 10, &r); }
P(wcslwr_s) { wcscpy(wd, v ? L"ABC" : L"Xy"); wcslwr_s(wd, 10); }
P(timingsafe_bcmp) { timingsafe_bcmp("abc", v ? "abd" : "abc", 3); }
P(strispassword_s) { strispassword_s(v ? "Passw0rd!x" : "short", 20); }
P(fopen_s) { FILE *f = NULL; fopen_s(&f, "/dev/null", v ? "r" : "w"); if (f) fclose(f); }
P(tmpfile_s) { FILE *f = NULL; tmpfile_s(&f); if (f) fclose(f); (void)v; }

/* ---- the remaining entry points: every exported function has a probe ---- */
static FILE *devnull(void) { static FILE *f; if (!f) f = fopen("/dev/null", "w"); return f; }
static long vfcall(int which, FILE *f, ...) {
    va_list ap; long r = 0;
    va_start(ap, f);
    switch (which) {
    case 0: r = vfprintf_s(f, "%d %s\n", ap); break;
    case 1: r = vfwprintf_s(f, L"%d %ls\n", ap); break;
    case 2: r = vprintf_s("%d %s\n", ap); break;
    case 3: r = vwprintf_s(L"%d %ls\n", ap); break;
    }
    va_end(ap);
    return r;
}
static long vscall(int which, const void *in, ...) {
    va_list ap; long r = 0;
    va_start(ap, in);
    switch (which) {
    case 0: r = vsscanf_s((const char *)in, "%d %3s", ap); break;
    case 1: r = vswscanf_s((const wchar_t *)in, L"%d", ap); break;
    case 2: r = vfscanf_s((FILE *)in, "%d", ap); break;
    case 3: r = vfwscanf_s((FILE *)in, L"%d", ap); break;
    }
    va_end(ap);
    return r;
}
static int out_saved = -1;
static void out_off(void) { fflush(stdout); out_saved = dup(1); { int n = open("/dev/null", 1); dup2(n, 1); close(n); } }
static void out_on(void) { fflush(stdout); dup2(out_saved, 1); close(out_saved); }
P(stpncpy_s) { errno_t e; stpncpy_s(d, 64, STR(v), 4 + v, &e); }
P(strcpyfld_s) { strcpyfld_s(d, 32, STR(v), 4 + v); }
P(strcpyfldin_s) { strcpyfldin_s(d, 32, STR(v), 4 + v); }
P(strcpyfldout_s) { strcpyfldout_s(d, 32, STR(v), 4 + v); }
P(memccpy_s) { memccpy_s(d, 64, STR(v), 's', 8 + v); }
P(memcpy16_s) { static uint16_t a[16], b[16] = {1, 2, 3}; b[0] += v; memcpy16_s(a, 32, b, 8 + v); }
P(memcpy32_s) { static uint32_t a[16], b[16] = {1, 2, 3}; b[0] += v; memcpy32_s(a, 64, b, 8 + v); }
P(memmove16_s) { static uint16_t a[16] = {1, 2, 3, 4}; memmove16_s(a + 1, 20, a, 4 + v); }
P(memmove32_s) { static uint32_t a[16] = {1, 2, 3, 4}; memmove32_s(a + 1, 40, a, 4 + v); }
P(wmemcpy_s) { wmemcpy_s(wd, 64, WSTR(v), 4 + v); }
P(wmemmove_s) { wmemmove_s(wd + 1, 60, wd, 8 + v); }
P(memset16_s) { static uint16_t a[32]; memset16_s(a, 64, 7 + v, 20 + v); }
P(memset32_s) { static uint32_t a[32]; memset32_s(a, 128, 7 + v, 20 + v); }
P(memzero16_s) { static uint16_t a[32]; memzero16_s(a, 20 + v); }
P(memzero32_s) { static uint32_t a[32]; memzero32_s(a, 20 + v); }
P(strzero_s) { strcpy(d, STR(v)); strzero_s(d, 64); }
P(strset_s) { strcpy(d, STR(v)); strset_s(d, 64, 'x' + v); }
P(strnset_s) { strcpy(d, STR(v)); strnset_s(d, 64, 'x' + v, 3 + v); }
P(wcsset_s) { wcscpy(wd, WSTR(v)); wcsset_s(wd, 64, L'x' + v); }
P(wcsnset_s) { wcscpy(wd, WSTR(v)); wcsnset_s(wd, 64, L'x' + v, 3 + v); }
P(strtouppercase_s) { strcpy(d, v ? "abc" : "Xy"); strtouppercase_s(d, 64); }
P(wcsupr_s) { wcscpy(wd, v ? L"abc" : L"Xy"); wcsupr_s(wd, 10); }
P(strljustify_s) { strcpy(d, v ? "   abc" : " Xy"); strljustify_s(d, 64); }
P(strremovews_s) { strcpy(d, v ? "   abc  " : " Xy "); strremovews_s(d, 64); }
P(strnterminate_s) { strcpy(d, STR(v)); strnterminate_s(d, 4 + v); }
P(wcscat_s) { wd[0] = 0; wcscat_s(wd, 64, WSTR(v)); }
P(wcsncat_s) { wd[0] = 0; wcsncat_s(wd, 64, WSTR(v), 4 + v); }
P(wcsncpy_s) { wcsncpy_s(wd, 64, WSTR(v), 4 + v); }
P(wcsnlen_s) { wcsnlen_s(WSTR(v), 64); }
P(strcasecmp_s) { int r; strcasecmp_s(STR(v), 64, "FIRST", &r); }
P(strcmpfld_s) { int r; strcmpfld_s("abcdef", 4 + v, "abcdxx", &r); }
P(strcoll_s) { int r; strcoll_s(STR(v), 64, "first", &r); }
P(strnatcmp_s) { int r; strnatcmp_s("file10", 10, v ? "file9" : "file10", &r); }
P(strcasestr_s) { char *r; strcpy(d, STR(v)); strcasestr_s(d, 64, "IN", 2, &r); }
P(wcsstr_s) { wchar_t *r; wcscpy(wd, WSTR(v)); wcsstr_s(wd, 64, L"in", 2, &r); }
P(strpbrk_s) { char *r; strcpy(d, STR(v)); strpbrk_s(d, 64, "xyi", 3, &r); }
P(strspn_s) { rsize_t n; strspn_s(STR(v), 64, "fsec", 4, &n); }
P(strcspn_s) { rsize_t n; strcspn_s(STR(v), 64, "tn", 2, &n); }
P(strchr_s) { char *r; strchr_s(STR(v), 64, 'i' + v, &r); }
P(strrchr_s) { char *r; strrchr_s(STR(v), 64, 'i' + v, &r); }
P(strfirstchar_s) { char *r; strcpy(d, STR(v)); strfirstchar_s(d, 64, 'i' + v, &r); }
P(strlastchar_s) { char *r; strcpy(d, STR(v)); strlastchar_s(d, 64, 'i' + v, &r); }
P(memchr_s) { void *r; memchr_s(STR(v), 5, 'i' + v, &r); }
P(memrchr_s) { void *r; memrchr_s(STR(v), 5, 'i' + v, &r); }
P(memcmp_s) { int r; memcmp_s("abcd", 4, v ? "abce" : "abcd", 4, &r); }
P(memcmp16_s) { int r; static uint16_t a[4] = {1, 2, 3, 4}, b[4] = {1, 2, 3, 5}; b[3] = 4 + v; memcmp16_s(a, 4, b, 4, &r); }
P(memcmp32_s) { int r; static uint32_t a[4] = {1, 2, 3, 4}, b[4] = {1, 2, 3, 5}; b[3] = 4 + v; memcmp32_s(a, 4, b, 4, &r); }
P(wmemcmp_s) { int r; wmemcmp_s(L"abcd", 4, v ? L"abce" : L"abcd", 4, &r); }
P(wcscmp_s) { int r; wcscmp_s(L"abcd", 8, v ? L"abce" : L"abcd", 8, &r); }
P(wcsncmp_s) { int r; wcsncmp_s(L"abcd", 8, v ? L"abce" : L"abcd", 8, 3 + v, &r); }
P(wcscoll_s) { int r; wcscoll_s(L"abcd", 8, v ? L"abce" : L"abcd", 8, &r); }
P(strfirstdiff_s) { rsize_t n; strfirstdiff_s("abcdef", 6, v ? "abxdef" : "abcdeg", &n); }
P(strfirstsame_s) { rsize_t n; strfirstsame_s("abcdef", 6, v ? "xxcdef" : "xbxxxx", &n); }
P(strlastdiff_s) { rsize_t n; strlastdiff_s("abcdef", 6, v ? "abxdef" : "abcdeg", &n); }
P(strlastsame_s) { rsize_t n; strlastsame_s("abcdef", 6, v ? "xxcdxx" : "xbxxxx", &n); }
P(strprefix_s) { strprefix_s(STR(v), 64, v ? "sec" : "fi"); }
P(strisalphanumeric_s) { strisalphanumeric_s(v ? "abc123" : "a-b", 8); }
P(strisascii_s) { strisascii_s(v ? "abc" : "a\xe9", 8); }
P(strisdigit_s) { strisdigit_s(v ? "123" : "12a", 8); }
P(strishex_s) { strishex_s(v ? "12af" : "12ag", 8); }
P(strislowercase_s) { strislowercase_s(v ? "abc" : "aBc", 8); }
P(strismixedcase_s) { strismixedcase_s(v ? "aBc" : "a1c", 8); }
P(strisuppercase_s) { strisuppercase_s(v ? "ABC" : "aBC", 8); }
P(strerrorlen_s) { strerrorlen_s(v ? 2 : 401); }
P(timingsafe_memcmp) { timingsafe_memcmp("abc", v ? "abd" : "abc", 3); }
P(iswfc) { iswfc(v ? 0xdf : L'A'); }
P(mbsrtowcs_s) { size_t n; mbstate_t ps; const char *sp = STR(v); memset(&ps, 0, sizeof ps); mbsrtowcs_s(&n, wd, 64, &sp, 60, &ps); }
P(wcsrtombs_s) { size_t n; mbstate_t ps; const wchar_t *sp = WSTR(v); memset(&ps, 0, sizeof ps); wcsrtombs_s(&n, d, 64, &sp, 60, &ps); }
P(wcsnorm_decompose_s) { rsize_t n; wcsnorm_decompose_s(wd, 64, v ? L"\x00e9\x0323x" : L"\x00c5", &n, false); }
P(wcsnorm_reorder_s) { wchar_t b[8] = {L'a', 0x301, 0x323, 0}; if (v) b[3] = 0x300; wcsnorm_reorder_s(wd, 64, b, 3 + v); }
P(wcsnorm_compose_s) { rsize_t n = 3; wchar_t b[8] = {L'e', 0x323, 0x301, 0}; if (v) b[0] = L'a'; wcsnorm_compose_s(wd, 64, b, &n, false); }
P(fprintf_s) { fprintf_s(devnull(), v ? "%5d %.3s\n" : "%d %s\n", 5 + v, STR(v)); }
P(vfprintf_s) { vfcall(0, devnull(), 5 + v, STR(v)); }
P(fwprintf_s) { fwprintf_s(devnull(), v ? L"%4d %.3ls\n" : L"%d %ls\n", 5 + v, WSTR(v)); }
P(vfwprintf_s) { vfcall(1, devnull(), 5 + v, WSTR(v)); }
P(printf_s) { out_off(); printf_s(v ? "%5d %.3s\n" : "%d %s\n", 5 + v, STR(v)); out_on(); }
P(vprintf_s) { out_off(); vfcall(2, NULL, 5 + v, STR(v)); out_on(); }
P(vsscanf_s) { int x; char w3[4]; vscall(0, v ? "42 abc" : "7 xy", &x, w3, (rsize_t)4); }
P(swscanf_s) { int x; swscanf_s(v ? L"42" : L"7", v ? L"%3d" : L"%d", &x); }
P(vswscanf_s) { int x; vscall(1, v ? L"42" : L"7", &x); }
P(fscanf_s) { int x; FILE *f = fmemopen((void *)(v ? "42" : "7"), 2 - !v, "r"); if (f) { fscanf_s(f, "%d", &x); fclose(f); } }
P(vfscanf_s) { int x; FILE *f = fmemopen((void *)(v ? "42" : "7"), 2 - !v, "r"); if (f) { vscall(2, f, &x); fclose(f); } }
P(fwscanf_s) { int x; FILE *f = fmemopen((void *)(v ? "42" : "7"), 2 - !v, "r"); if (f) { fwscanf_s(f, L"%d", &x); fclose(f); } }
P(vfwscanf_s) { int x; FILE *f = fmemopen((void *)(v ? "42" : "7"), 2 - !v, "r"); if (f) { vscall(3, f, &x); fclose(f); } }
P(freopen_s) { FILE *f = fopen("/dev/null", "r"), *g = NULL; if (f) { freopen_s(&g, "/dev/null", v ? "r" : "w", f); fclose(g ? g : f); } }
P(handlers) { constraint_handler_t o = set_str_constraint_handler_s(v ? ignore_handler_s : hnd); set_str_constraint_handler_s(hnd); (void)o;
              ignore_handler_s("x", NULL, 400 + v); }

#define E(n) {#n, p_##n}
static const struct { const char *name; probe_t fn; } PROBES[] = {
    E(strcpy_s), E(strncpy_s), E(strcat_s), E(strncat_s), E(stpcpy_s), E(strcpy_err), E(memcpy_s), E(memmove_s), E(memset_s), E(memzero_s), E(memcpy_err),
    E(strnlen_s), E(strcmp_s), E(strstr_s), E(strtok_s), E(wcstok_s), E(strtolowercase_s), E(strerror_s),
    E(sprintf_int), E(sprintf_f), E(sprintf_big), E(sprintf_g), E(sprintf_Lf), E(sprintf_Le), E(sprintf_Lg), E(sprintf_a), E(sprintf_La), E(sprintf_ls), E(snprintf_s), E(vsprintf_s), E(vsnprintf_s),
    E(swprintf_s), E(swprintf_f), E(swprintf_nospc), E(swprintf_nospc_big), E(snwprintf_s), E(snwprintf_nospc), E(vswprintf_s), E(vswprintf_nospc), E(vsnwprintf_s), E(vsnwprintf_nospc),
    E(sscanf_s), E(qsort_small), E(qsort_big), E(qsort_mid), E(bsearch_s), E(asctime_small), E(asctime_big), E(ctime_small), E(ctime_big), E(gmtime_s), E(localtime_s),
    E(getenv_s), E(mbstowcs_s), E(wcstombs_s), E(wcrtomb_s), E(wctomb_s), E(wcscpy_s), E(wcsnorm_nfd), E(wcsnorm_nfc), E(wcsnorm_long), E(wcsnorm_marks),
    E(wcsfc_s), E(towfc_s), E(wcsicmp_s), E(wcsnatcmp_s), E(wcslwr_s), E(timingsafe_bcmp), E(strispassword_s), E(fopen_s), E(tmpfile_s),
    E(stpncpy_s), E(strcpyfld_s), E(strcpyfldin_s), E(strcpyfldout_s), E(memccpy_s), E(memcpy16_s), E(memcpy32_s), E(memmove16_s), E(memmove32_s), E(wmemcpy_s), E(wmemmove_s),
    E(memset16_s), E(memset32_s), E(memzero16_s), E(memzero32_s), E(strzero_s), E(strset_s), E(strnset_s), E(wcsset_s), E(wcsnset_s), E(strtouppercase_s), E(wcsupr_s),
    E(strljustify_s), E(strremovews_s), E(strnterminate_s), E(wcscat_s), E(wcsncat_s), E(wcsncpy_s), E(wcsnlen_s), E(strcasecmp_s), E(strcmpfld_s), E(strcoll_s), E(strnatcmp_s),
    E(strcasestr_s), E(wcsstr_s), E(strpbrk_s), E(strspn_s), E(strcspn_s), E(strchr_s), E(strrchr_s), E(strfirstchar_s), E(strlastchar_s), E(memchr_s), E(memrchr_s),
    E(memcmp_s), E(memcmp16_s), E(memcmp32_s), E(wmemcmp_s), E(wcscmp_s), E(wcsncmp_s), E(wcscoll_s), E(strfirstdiff_s), E(strfirstsame_s), E(strlastdiff_s), E(strlastsame_s),
    E(strprefix_s), E(strisalphanumeric_s), E(strisascii_s), E(strisdigit_s), E(strishex_s), E(strislowercase_s), E(strismixedcase_s), E(strisuppercase_s), E(strerrorlen_s),
    E(timingsafe_memcmp), E(iswfc), E(mbsrtowcs_s), E(wcsrtombs_s), E(wcsnorm_decompose_s), E(wcsnorm_reorder_s), E(wcsnorm_compose_s),
    E(fprintf_s), E(vfprintf_s), E(fwprintf_s), E(vfwprintf_s), E(printf_s), E(vprintf_s), E(vsscanf_s), E(swscanf_s), E(vswscanf_s), E(fscanf_s), E(vfscanf_s),
    E(fwscanf_s), E(vfwscanf_s), E(freopen_s), E(handlers),
};

int main(void) {
    size_t i;
    int k;
    setlocale(LC_ALL, "C.UTF-8");
    dl_iterate_phdr(cb, NULL);
    if (!nseg) { fprintf(stderr, "library segments not found\n"); return 2; }
    for (k = 0; k < nseg; k++) snap[k] = malloc(seg[k].len);
    set_str_constraint_handler_s(hnd);
    set_mem_constraint_handler_s(hnd);
    printf("{\"e\":\"segments\",\"n\":%d,\"bytes\":%ld}\n", nseg, (long)(nseg > 0 ? seg[0].len + (nseg > 1 ? seg[1].len : 0) : 0));
    for (i = 0; i < sizeof PROBES / sizeof PROBES[0]; i++) {
        long offs[8], n;
        int j;
        PROBES[i].fn(0);           /* warm-up: lazy one-time initialisation in libc etc. */
        take();
        PROBES[i].fn(1);
        n = diff(offs, 8);
        printf("{\"e\":\"call\",\"id\":%zu,\"fn\":\"%s\",\"delta\":%ld,\"offs\":[", i + 1, PROBES[i].name, n);
        for (j = 0; j < n && j < 8; j++) printf("%s%ld", j ? "," : "", offs[j]);
        printf("]}\n");
    }
    return 0;
}
