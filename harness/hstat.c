/* hstat: static-footprint observer (C12).  Linked against the library built as a private shared
 * object (-z now, no lazy PLT writes).  For every probe: one warm-up call (with other arguments AND another
 * format / flags / sizes, so that scratch keyed by either shows up), a snapshot of the
 * library's writable PT_LOAD segments (.data/.bss), a second call with different input, and a
 * byte-wise comparison.  Output: one JSON event per probe with the number of changed bytes and the
 * first changed offsets (relative to the load base, for symbol lookup by the driver).
 * The program records; TraceThreads.tla judges (delta must be empty). */
#define _GNU_SOURCE
#include <stdio.h>
#include <stdlib.h>
#include <string.h>
#include <wchar.h>
#include <locale.h>
#include <time.h>
#include <link.h>
#include <stdarg.h>
#include "safe_lib.h"
#include "safe_str_lib.h"
#include "safe_mem_lib.h"

static struct { char *addr; size_t len; } seg[8];
static int nseg;
static char *base;
static unsigned char *snap[8];

static int cb(struct dl_phdr_info *info, size_t size, void *data) {
    int i;
    (void)size; (void)data;
    if (!info->dlpi_name || !strstr(info->dlpi_name, "libsafec_v")) return 0;
    base = (char *)info->dlpi_addr;
    for (i = 0; i < info->dlpi_phnum; i++) {
        const ElfW(Phdr) *ph = &info->dlpi_phdr[i];
        if (ph->p_type == PT_LOAD && (ph->p_flags & PF_W) && nseg < 8) {
            seg[nseg].addr = base + ph->p_vaddr;
            seg[nseg].len = ph->p_memsz;
            nseg++;
        }
    }
    return 1;
}
static void take(void) { int i; for (i = 0; i < nseg; i++) memcpy(snap[i], seg[i].addr, seg[i].len); }
static long diff(long *offs, int maxo) {
    long n = 0;
    int i;
    size_t j;
    for (i = 0; i < nseg; i++)
        for (j = 0; j < seg[i].len; j++)
            if ((unsigned char)seg[i].addr[j] != snap[i][j]) {
                if (n < maxo) offs[n] = (seg[i].addr + j) - base;
                n++;
            }
    return n;
}

static void hnd(const char *m, void *p, errno_t e) { (void)m; (void)p; (void)e; }
static int cmp_int(const void *a, const void *b, void *ctx) { (void)ctx; return *(const int *)a - *(const int *)b; }
static int cmp_big(const void *a, const void *b, void *ctx) { (void)ctx; return memcmp(a, b, 4); }

static char d[512], s[512];
static wchar_t wd[2048], ws[2048];
static long vcall(int which, ...) {
    va_list ap; long r = 0;
    va_start(ap, which);
    switch (which) {
    case 0: r = vsprintf_s(d, 64, "%d %s", ap); break;
    case 1: r = vsnprintf_s(d, 64, "%d %s", ap); break;
    case 2: r = vswprintf_s(wd, 64, L"%d %ls", ap); break;
    case 3: r = vsnwprintf_s(wd, 64, L"%d %ls", ap); break;
    case 4: r = vswprintf_s(wd, 8, L"%d %ls", ap); break;      /* does not fit: no-space probe */
    case 5: r = vsnwprintf_s(wd, 8, L"%d %ls", ap); break;
    }
    va_end(ap);
    return r;
}

typedef void (*probe_t)(int v);
#define P(name) static void p_##name(int v)
#define STR(v) ((v) ? "second input" : "first")
#define WSTR(v) ((v) ? L"second input" : L"first")
P(strcpy_s) { strcpy_s(d, 64, STR(v)); }
P(strncpy_s) { strncpy_s(d, 64, STR(v), 5 + v); }
P(strcat_s) { d[0] = 0; strcat_s(d, 64, STR(v)); }
P(strncat_s) { d[0] = 0; strncat_s(d, 64, STR(v), 4 + v); }
P(stpcpy_s) { errno_t e; stpcpy_s(d, 64, STR(v), &e); }
P(strcpy_err) { strcpy_s(d, 3, "too long for dest"); (void)v; }
P(memcpy_s) { memcpy_s(d, 64, STR(v), 5); }
P(memmove_s) { memmove_s(d, 64, d + 1, 10 + v); }
P(memset_s) { memset_s(d, 64, 'a' + v, 20 + v); }
P(memzero_s) { memzero_s(d, 30 + v); }
P(memcpy_err) { memcpy_s(d, 4, s, 100); (void)v; }
P(strnlen_s) { strnlen_s(STR(v), 64); }
P(strcmp_s) { int r; strcmp_s(STR(v), 64, "first", &r); }
P(strstr_s) { char *r; strcpy(d, STR(v)); strstr_s(d, 64, "in", 2, &r); }
P(strtok_s) { rsize_t n = 30; char *ctx; strcpy(d, v ? "a,b;c" : "x y"); strtok_s(d, &n, ",; ", &ctx); strtok_s(NULL, &n, ",; ", &ctx); }
P(wcstok_s) { rsize_t n = 30; wchar_t *ctx; wcscpy(wd, v ? L"a,b;c" : L"x y"); wcstok_s(wd, &n, L",; ", &ctx); wcstok_s(NULL, &n, L",; ", &ctx); }
P(strtolowercase_s) { strcpy(d, v ? "ABC" : "Xy"); strtolowercase_s(d, 64); }
P(strerror_s) { strerror_s(d, 64, v ? 2 : 13); }
P(sprintf_int) { sprintf_s(d, 64, v ? "%5d %.3s %#x" : "%d %s %x", 12 + v, STR(v), 255 + v); }
P(sprintf_f) { sprintf_s(d, 64, v ? "%10.3f %+.1e" : "%f %e", 1.5 + v, 2.25e10 + v); }
P(sprintf_big) { sprintf_s(d, 64, v ? "%-30.2f" : "%f", 1e12 + v); }
P(sprintf_g) { sprintf_s(d, 64, v ? "%#12.4g" : "%G", 1234.5 + v); }
P(sprintf_Lf) { sprintf_s(d, 64, v ? "%+.2Lf" : "%Lf", 1.5L + v); }
P(sprintf_Le) { sprintf_s(d, 64, v ? "%#20.12Le x" : "%LE x", 2.5L + v); }
P(sprintf_Lg) { sprintf_s(d, 64, v ? "%030.15Lg" : "%Lg", 2.718281828459045L + v); }
P(sprintf_a) { sprintf_s(d, 64, v ? "%.3a" : "%A", 1.5 + v); }
P(sprintf_La) { sprintf_s(d, 64, v ? "%-24.10La y" : "%La y", 1.5L + v); }
P(sprintf_ls) { sprintf_s(d, 64, v ? "%-20.5ls|" : "%ls", WSTR(v)); }
P(snprintf_s) { snprintf_s(d, 8, v ? "%10s" : "%s", STR(v)); }
P(vsprintf_s) { vcall(0, 5 + v, STR(v)); }
P(vsnprintf_s) { vcall(1, 5 + v, STR(v)); }
P(swprintf_s) { swprintf_s(wd, 64, v ? L"%4d %.3ls" : L"%d %ls", 5 + v, WSTR(v)); }
P(swprintf_f) { swprintf_s(wd, 64, v ? L"%+.2Lf %a" : L"%Le %f", 5.5L + v, 2.5 + v); }
P(swprintf_nospc) { swprintf_s(wd, 8, L"%d %ls", 5 + v, WSTR(v)); }
P(swprintf_nospc_big) { int i; for (i = 0; i < 700; i++) ws[i] = L'a' + v; ws[700] = 0; swprintf_s(wd, 600, L"%ls", ws); }
P(snwprintf_s) { snwprintf_s(wd, 64, L"%d %ls", 5 + v, WSTR(v)); }
P(snwprintf_nospc) { snwprintf_s(wd, 8, L"%d %ls", 5 + v, WSTR(v)); }
P(vswprintf_s) { vcall(2, 5 + v, WSTR(v)); }
P(vswprintf_nospc) { vcall(4, 5 + v, WSTR(v)); }
P(vsnwprintf_s) { vcall(3, 5 + v, WSTR(v)); }
P(vsnwprintf_nospc) { vcall(5, 5 + v, WSTR(v)); }
P(sscanf_s) { int x; sscanf_s(v ? "42" : "7", v ? "%3d" : "%d", &x); }
P(qsort_small) { int a[8] = {5, 3, 8, 1, 9, 2, 7, 4}; a[0] += v; qsort_s(a, 8, sizeof(int), cmp_int, NULL); }
P(qsort_big) { static char a[6][300]; int i; for (i = 0; i < 6; i++) { memset(a[i], 'a' + ((i * 7 + v) % 5), 300); } qsort_s(a, 6, 300, cmp_big, NULL); }
P(qsort_mid) { static char a[7][40]; int i; for (i = 0; i < 7; i++) { memset(a[i], 'a' + ((i * 3 + v) % 6), 40); } qsort_s(a, 7, 40, cmp_big, NULL); }
P(bsearch_s) { int a[5] = {1, 3, 5, 7, 9}; int k = 5 + 2 * v; bsearch_s(&k, a, 5, sizeof(int), cmp_int, NULL); }
P(asctime_small) { struct tm tm; time_t t = 86400 * (365 + v); gmtime_r(&t, &tm); asctime_s(d, 30, &tm); }
P(asctime_big) { struct tm tm; time_t t = 86400 * (365 + v); gmtime_r(&t, &tm); asctime_s(d, 200, &tm); }
P(ctime_small) { time_t t = 86400 * (400 + v); ctime_s(d, 30, &t); }
P(ctime_big) { time_t t = 86400 * (400 + v); ctime_s(d, 200, &t); }
P(gmtime_s) { struct tm tm; time_t t = 86400 * (500 + v); gmtime_s(&t, &tm); }
P(localtime_s) { struct tm tm; time_t t = 86400 * (500 + v); localtime_s(&t, &tm); }
P(getenv_s) { size_t n; getenv_s(&n, d, 200, v ? "PATH" : "HOME"); }
P(mbstowcs_s) { size_t n; mbstowcs_s(&n, wd, 64, STR(v), 60); }
P(wcstombs_s) { size_t n; wcstombs_s(&n, d, 64, WSTR(v), 60); }
P(wcrtomb_s) { size_t n; mbstate_t ps; memset(&ps, 0, sizeof ps); wcrtomb_s(&n, d, 8, L'a' + v, &ps); }
P(wctomb_s) { int n; wctomb_s(&n, d, 8, L'a' + v); }
P(wcscpy_s) { wcscpy_s(wd, 64, WSTR(v)); }
P(wcsnorm_nfd) { rsize_t n; wcsnorm_s(wd, 64, v ? L"\x00e9\x0323x" : L"\x00c5", WCSNORM_NFD, &n); }
P(wcsnorm_nfc) { rsize_t n; wcsnorm_s(wd, 64, v ? L"e\x0323\x0301x" : L"A\x030a", WCSNORM_NFC, &n); }
P(wcsnorm_long) { rsize_t n; int i; for (i = 0; i < 140; i++) ws[i] = L'a' + v; ws[140] = 0; wcsnorm_s(wd, 400, ws, WCSNORM_NFC, &n); }
P(wcsnorm_marks) { rsize_t n; int i; ws[0] = L'a'; for (i = 1; i < 20; i++) ws[i] = ((i + v) % 2) ? 0x0301 : 0x0323; ws[20] = 0; wcsnorm_s(wd, 200, ws, WCSNORM_NFC, &n); }
P(wcsfc_s) { rsize_t n; wcsfc_s(wd, 64, v ? L"STRASSE\x00df" : L"Ab", &n); }
P(towfc_s) { towfc_s(wd, 8, v ? 0xdf : L'A'); }
P(wcsicmp_s) { int r; wcsicmp_s(L"Abc", 8, v ? L"aBD" : L"abc", 8, &r); }
P(wcsnatcmp_s) { int r; wcsnatcmp_s(L"file10", 10, v ? L"file9" : L"file10", 10, &r); }
P(wcslwr_s) { wcscpy(wd, v ? L"ABC" : L"Xy"); wcslwr_s(wd, 10); }
P(timingsafe_bcmp) { timingsafe_bcmp("abc", v ? "abd" : "abc", 3); }
P(strispassword_s) { strispassword_s(v ? "Passw0rd!x" : "short", 20); }
P(fopen_s) { FILE *f = NULL; fopen_s(&f, "/dev/null", v ? "r" : "w"); if (f) fclose(f); }
P(tmpfile_s) { FILE *f = NULL; tmpfile_s(&f); if (f) fclose(f); (void)v; }

#define E(n) {#n, p_##n}
static const struct { const char *name; probe_t fn; } PROBES[] = {
    E(strcpy_s), E(strncpy_s), E(strcat_s), E(strncat_s), E(stpcpy_s), E(strcpy_err), E(memcpy_s), E(memmove_s), E(memset_s), E(memzero_s), E(memcpy_err),
    E(strnlen_s), E(strcmp_s), E(strstr_s), E(strtok_s), E(wcstok_s), E(strtolowercase_s), E(strerror_s),
    E(sprintf_int), E(sprintf_f), E(sprintf_big), E(sprintf_g), E(sprintf_Lf), E(sprintf_Le), E(sprintf_Lg), E(sprintf_a), E(sprintf_La), E(sprintf_ls), E(snprintf_s), E(vsprintf_s), E(vsnprintf_s),
    E(swprintf_s), E(swprintf_f), E(swprintf_nospc), E(swprintf_nospc_big), E(snwprintf_s), E(snwprintf_nospc), E(vswprintf_s), E(vswprintf_nospc), E(vsnwprintf_s), E(vsnwprintf_nospc),
    E(sscanf_s), E(qsort_small), E(qsort_big), E(qsort_mid), E(bsearch_s), E(asctime_small), E(asctime_big), E(ctime_small), E(ctime_big), E(gmtime_s), E(localtime_s),
    E(getenv_s), E(mbstowcs_s), E(wcstombs_s), E(wcrtomb_s), E(wctomb_s), E(wcscpy_s), E(wcsnorm_nfd), E(wcsnorm_nfc), E(wcsnorm_long), E(wcsnorm_marks),
    E(wcsfc_s), E(towfc_s), E(wcsicmp_s), E(wcsnatcmp_s), E(wcslwr_s), E(timingsafe_bcmp), E(strispassword_s), E(fopen_s), E(tmpfile_s),
};

int main(void) {
    size_t i;
    int k;
    setlocale(LC_ALL, "C.UTF-8");
    dl_iterate_phdr(cb, NULL);
    if (!nseg) { fprintf(stderr, "library segments not found\n"); return 2; }
    for (k = 0; k < nseg; k++) snap[k] = malloc(seg[k].len);
    set_str_constraint_handler_s(hnd);
    set_mem_constraint_handler_s(hnd);
    printf("{\"e\":\"segments\",\"n\":%d,\"bytes\":%ld}\n", nseg, (long)(nseg > 0 ? seg[0].len + (nseg > 1 ? seg[1].len : 0) : 0));
    for (i = 0; i < sizeof PROBES / sizeof PROBES[0]; i++) {
        long offs[8], n;
        int j;
        PROBES[i].fn(0);           /* warm-up: lazy one-time initialisation in libc etc. */
        take();
        PROBES[i].fn(1);
        n = diff(offs, 8);
        printf("{\"e\":\"call\",\"id\":%zu,\"fn\":\"%s\",\"delta\":%ld,\"offs\":[", i + 1, PROBES[i].name, n);
        for (j = 0; j < n && j < 8; j++) printf("%s%ld", j ? "," : "", offs[j]);
        printf("]}\n");
    }
    return 0;
}
