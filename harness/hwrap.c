/* hwrap: recorder linked into the repository's own test programs (C01-C08 conformance corpus).
 * Every call a test makes to one of the destination-writing functions below goes through a wrapper (ld --wrap) that
 *   - snapshots the operands (dest[0..max(dmax,object size)), the source as far as the call may read it) with a
 *     fault-free read (process_vm_readv on the process itself), laid out as ONE abstract arena: the true relative
 *     placement when the operands are near each other, two zones otherwise,
 *   - calls the real function, counts the constraint-handler invocations it causes,
 *   - snapshots the same addresses again and appends one JSON event (the format of hx) to $VERIF_WRAPLOG.
 * Calls that cannot be expressed in the abstract vocabulary (sizes beyond the window, sizes that are no multiple of the
 * element width) are counted in a "skip" event.  The wrapper never judges; TraceArena.tla does. */
#define _GNU_SOURCE
#include <stdio.h>
#include <stdlib.h>
#include <string.h>
#include <stdint.h>
#include <unistd.h>
#include <errno.h>
#include <wchar.h>
#include <sys/uio.h>
#include "safe_lib.h"
#include "safe_str_lib.h"
#include "safe_mem_lib.h"

#define WIN 400            /* elements per operand window */
#define HMAXW 8
static FILE *wlog;
static long evid, nskip;
static int h_n, h_codes[64], h_kinds[64];
static int depth;

static void wopen(void) {
    const char *p;
    if (wlog) return;
    p = getenv("VERIF_WRAPLOG");
    wlog = p ? fopen(p, "a") : NULL;
    if (wlog) setvbuf(wlog, NULL, _IOLBF, 0);
}
/* handler calls are counted by a per-thread handler installed for the duration of the outermost wrapped call; it passes
 * every report on to the handler the test would have got (its own per-thread one, else the process-wide one) */
static constraint_handler_t prev_ts, prev_tm;
static void pass_on(constraint_handler_t prev_t, int is_str, const char *msg, void *ptr, errno_t error) {
    constraint_handler_t g;
    if (prev_t) { prev_t(msg, ptr, error); return; }
    g = is_str ? set_str_constraint_handler_s(NULL) : set_mem_constraint_handler_s(NULL);
    if (is_str) set_str_constraint_handler_s(g); else set_mem_constraint_handler_s(g);
    if (g) g(msg, ptr, error);
}
static void count_str(const char *msg, void *ptr, errno_t error) {
    if (h_n < 64) { h_codes[h_n] = error; h_kinds[h_n] = 's'; }
    h_n++;
    pass_on(prev_ts, 1, msg, ptr, error);
}
static void count_mem(const char *msg, void *ptr, errno_t error) {
    if (h_n < 64) { h_codes[h_n] = error; h_kinds[h_n] = 'm'; }
    h_n++;
    pass_on(prev_tm, 0, msg, ptr, error);
}
static void hook_on(void) {
    if (depth == 0) { prev_ts = thrd_set_str_constraint_handler_s(count_str); prev_tm = thrd_set_mem_constraint_handler_s(count_mem); }
    depth++;
}
static void hook_off(void) {
    depth--;
    if (depth == 0) { thrd_set_str_constraint_handler_s(prev_ts); thrd_set_mem_constraint_handler_s(prev_tm); }
}

/* number of bytes readable at p (up to n), without faulting */
static long safe_read(const void *p, void *buf, long n) {
    struct iovec l, r;
    long got;
    if (!p || n <= 0) return 0;
    l.iov_base = buf; l.iov_len = (size_t)n;
    r.iov_base = (void *)p; r.iov_len = (size_t)n;
    got = process_vm_readv(getpid(), &l, 1, &r, 1, 0);
    return got < 0 ? 0 : got;
}
static long get_el(const unsigned char *b, int w) {
    return w == 1 ? b[0] : w == 2 ? *(const uint16_t *)b : (long)*(const uint32_t *)b;
}

typedef struct {
    const char *fn; int w;
    const void *dest; long dmax;      /* abstract: elements, -1 = beyond the limit */
    const void *src; long slen;       /* abstract */
    long c, n, dbos, sbos; int flags;
    int src_is_str;                   /* 1: the source is a string (readable up to its terminator within srclim) */
    long srclim;                      /* elements of src the call may look at (abstract, -1 unknown/huge) */
    /* filled by prepare */
    int ok; long na, d, s; const unsigned char *base[2]; long off[2], len[2];   /* up to two zones: address, arena offset, elements */
    long pre[2 * WIN + 16];
} wcall_t;

static void skip(wcall_t *k, const char *why) { (void)k; (void)why; nskip++; k->ok = 0; }

static void prepare(wcall_t *k) {
    long dwin = 0, swin = 0, i;
    const unsigned char *dp = k->dest, *sp = k->src;
    static unsigned char buf[(2 * WIN + 16) * 4];
    int w = k->w;
    k->ok = 1;
    /* dest window: max(dmax, known object size) elements */
    if (dp) {
        long need = k->dmax < 0 ? 0 : k->dmax;
        if (k->dbos >= 0 && k->dbos > need) need = k->dbos;
        if (k->dmax < 0) need = k->dbos >= 0 ? k->dbos : 4;          /* oversize dmax: nothing may be touched; watch a few cells */
        if (need > WIN) { skip(k, "dest window"); return; }
        dwin = need;
        if (safe_read(dp, buf, dwin * w) != dwin * w) { skip(k, "dest unreadable"); return; }
    }
    if (sp) {
        long lim = k->srclim < 0 || k->srclim > WIN ? WIN : k->srclim;
        long got;
        if (k->src_is_str && lim < 1) lim = 1;        /* the first element of a string source is looked at even with a zero count */
        got = safe_read(sp, buf, lim * w) / w;
        if (k->src_is_str) {
            for (i = 0; i < got; i++) if (get_el(buf + i * w, w) == 0) { got = i + 1; break; }
            swin = got;
        } else {
            if (k->srclim >= 0 && got < lim) { skip(k, "src unreadable"); return; }
            if (k->srclim > WIN) { skip(k, "src window"); return; }
            swin = k->srclim < 0 ? 0 : got;
        }
    }
    /* layout */
    if (dp && sp && swin > 0 && dwin > 0) {
        long diff = (long)(sp - dp);
        if (diff % w == 0 && diff / w < WIN + 8 && diff / w > -(WIN + 8)) {
            const unsigned char *lo = dp < sp ? dp : sp;
            const unsigned char *hi = (dp + dwin * w) > (sp + swin * w) ? (dp + dwin * w) : (sp + swin * w);
            long n = (long)(hi - lo) / w;
            if (n <= 2 * WIN && safe_read(lo, buf, n * w) == n * w) {
                k->base[0] = lo; k->off[0] = 1; k->len[0] = n; k->len[1] = 0;
                k->d = (long)(dp - lo) / w + 1; k->s = (long)(sp - lo) / w + 1; k->na = n;
                for (i = 0; i < n; i++) k->pre[i] = get_el(buf + i * w, w);
                return;
            }
        }
    }
    /* two zones (or one operand): dest first, a gap of 3 inert cells, then the source */
    {
        long n = 0;
        k->len[0] = k->len[1] = 0;
        k->d = k->s = 0;
        if (dp) {
            if (dwin == 0) { k->pre[n++] = 0x5A; k->d = 1; k->base[0] = 0; k->len[0] = 0; }     /* dmax = 0: one inert cell stands for "dest" */
            else {
                safe_read(dp, buf, dwin * w);
                k->base[0] = dp; k->off[0] = 1; k->len[0] = dwin; k->d = 1;
                for (i = 0; i < dwin; i++) k->pre[n++] = get_el(buf + i * w, w);
            }
            k->pre[n++] = 0x7E; k->pre[n++] = 0x7E; k->pre[n++] = 0x7E;
        }
        if (sp) {
            if (swin == 0) { k->pre[n] = 0x5B; k->s = n + 1; n++; }
            else {
                safe_read(sp, buf, swin * w);
                k->base[1] = sp; k->off[1] = n + 1; k->len[1] = swin; k->s = n + 1;
                for (i = 0; i < swin; i++) k->pre[n++] = get_el(buf + i * w, w);
            }
        }
        if (n == 0) k->pre[n++] = 0x7E;
        k->na = n;
    }
}

static void emit(wcall_t *k, long rc, long ret, long o1, int h0) {
    static unsigned char buf[(2 * WIN + 16) * 4];
    long i, z;
    int w = k->w;
    static long post[2 * WIN + 16];
    if (!wlog || !k->ok) return;
    for (i = 0; i < k->na; i++) post[i] = k->pre[i];
    for (z = 0; z < 2; z++) {
        if (k->len[z] > 0 && k->base[z]) {
            long got = safe_read(k->base[z], buf, k->len[z] * w) / w;
            for (i = 0; i < got; i++) post[k->off[z] - 1 + i] = get_el(buf + i * w, w);
        }
    }
    fprintf(wlog, "{\"id\":%ld,\"fn\":\"%s\",\"w\":%d,\"d\":%ld,\"dmax\":%ld,\"s\":%ld,\"slen\":%ld,\"c\":%ld,\"n\":%ld,\"dbos\":%ld,\"sbos\":%ld,\"flags\":%d,\"place\":0,\"depth\":%d,\"pre\":[",
            ++evid, k->fn, w, k->d, k->dmax, k->s, k->slen, k->c, k->n, k->dbos, k->sbos, k->flags, depth);
    for (i = 0; i < k->na; i++) fprintf(wlog, "%s%ld", i ? "," : "", k->pre[i]);
    fprintf(wlog, "],\"post\":[");
    for (i = 0; i < k->na; i++) fprintf(wlog, "%s%ld", i ? "," : "", post[i]);
    fprintf(wlog, "],\"rc\":%ld,\"h\":[", rc);
    for (i = h0; i < h_n && i < 64; i++) fprintf(wlog, "%s%d", i > h0 ? "," : "", h_codes[i]);
    fprintf(wlog, "],\"hn\":%d,\"hk\":\"", h_n - h0);
    for (i = h0; i < h_n && i < 64; i++) fputc(h_kinds[i], wlog);
    fprintf(wlog, "\",\"ret\":%ld,\"o1\":%ld,\"fault\":\"none\",\"foff\":0,\"fnoz\":false,\"frame_ok\":true,\"frame_off\":0}\n", ret, o1);
}
static void at_exit_report(void) {
    if (wlog && nskip) fprintf(wlog, "{\"skip\":%ld}\n", nskip);
}
static void init_once(void) {
    static int done;
    if (done) return;
    done = 1;
    wopen();
    atexit(at_exit_report);
}

/* abstract sizes */
static long ASZ(rsize_t v, rsize_t lim) { return v > lim ? -1 : (long)v; }
static long ABOS(size_t bos, int w) { return bos == (size_t)-1 ? -1 : (bos % w ? -2 : (long)(bos / w)); }
static long AIDX(wcall_t *k, const void *p) {      /* arena index of a returned pointer */
    int z;
    if (!p) return 0;
    for (z = 0; z < 2; z++)
        if (k->base[z] && k->len[z] > 0 && (const unsigned char *)p >= k->base[z] && (const unsigned char *)p <= k->base[z] + k->len[z] * k->w)
            return k->off[z] + ((const unsigned char *)p - k->base[z]) / k->w;
    return -2;
}
#define STRMAX RSIZE_MAX_STR
#define WSTRMAX RSIZE_MAX_WSTR
#define MEMMAX RSIZE_MAX_MEM
#define BEGIN(NAME, W) wcall_t k; int h0; init_once(); memset(&k, 0, sizeof k); k.fn = NAME; k.w = W; k.dbos = -1; k.sbos = -1; k.srclim = -1
#define RUN(CALL) prepare(&k); h0 = h_n; hook_on(); CALL; hook_off()
#define BADBOS (k.dbos == -2 || k.sbos == -2)

/* ---- string copy / concatenate ---- */
#define WRAP_S2(NAME, T, W, LIM) \
extern errno_t __real__##NAME##_chk(T *dest, rsize_t dmax, const T *src, const size_t destbos); \
errno_t __wrap__##NAME##_chk(T *dest, rsize_t dmax, const T *src, const size_t destbos) { \
    errno_t rc; BEGIN(#NAME, W); k.dest = dest; k.dmax = ASZ(dmax, LIM); k.src = src; k.dbos = ABOS(destbos, W); k.src_is_str = 1; \
    k.srclim = k.dmax < 0 ? 8 : k.dmax; \
    if (BADBOS) { nskip++; return __real__##NAME##_chk(dest, dmax, src, destbos); } \
    RUN(rc = __real__##NAME##_chk(dest, dmax, src, destbos)); emit(&k, rc, -1, -1, h0); return rc; }
WRAP_S2(strcpy_s, char, 1, STRMAX)
WRAP_S2(strcat_s, char, 1, STRMAX)
WRAP_S2(wcscpy_s, wchar_t, 4, WSTRMAX)
WRAP_S2(wcscat_s, wchar_t, 4, WSTRMAX)

#define WRAP_S2N(NAME, T, W, LIM) \
extern errno_t __real__##NAME##_chk(T *dest, rsize_t dmax, const T *src, rsize_t slen, const size_t destbos, const size_t srcbos); \
errno_t __wrap__##NAME##_chk(T *dest, rsize_t dmax, const T *src, rsize_t slen, const size_t destbos, const size_t srcbos) { \
    errno_t rc; BEGIN(#NAME, W); k.dest = dest; k.dmax = ASZ(dmax, LIM); k.src = src; k.slen = ASZ(slen, LIM); k.dbos = ABOS(destbos, W); k.sbos = ABOS(srcbos, W); \
    k.src_is_str = 1; k.srclim = k.slen < 0 ? (k.dmax < 0 ? 8 : k.dmax) : (k.dmax >= 0 && k.dmax < k.slen ? k.dmax : k.slen); \
    if (BADBOS) { nskip++; return __real__##NAME##_chk(dest, dmax, src, slen, destbos, srcbos); } \
    RUN(rc = __real__##NAME##_chk(dest, dmax, src, slen, destbos, srcbos)); emit(&k, rc, -1, -1, h0); return rc; }
WRAP_S2N(strncpy_s, char, 1, STRMAX)
WRAP_S2N(strncat_s, char, 1, STRMAX)
WRAP_S2N(wcsncpy_s, wchar_t, 4, WSTRMAX)
WRAP_S2N(wcsncat_s, wchar_t, 4, WSTRMAX)

#define WRAP_FLD(NAME, ISSTR) \
extern errno_t __real__##NAME##_chk(char *dest, rsize_t dmax, const char *src, rsize_t slen, const size_t destbos); \
errno_t __wrap__##NAME##_chk(char *dest, rsize_t dmax, const char *src, rsize_t slen, const size_t destbos) { \
    errno_t rc; BEGIN(#NAME, 1); k.dest = dest; k.dmax = ASZ(dmax, STRMAX); k.src = src; k.slen = ASZ(slen, STRMAX); k.dbos = ABOS(destbos, 1); \
    k.src_is_str = ISSTR; k.srclim = (k.slen < 0 || (k.dmax >= 0 && k.slen > k.dmax)) ? 1 : k.slen; \
    RUN(rc = __real__##NAME##_chk(dest, dmax, src, slen, destbos)); emit(&k, rc, -1, -1, h0); return rc; }
WRAP_FLD(strcpyfld_s, 0)
WRAP_FLD(strcpyfldin_s, 1)
WRAP_FLD(strcpyfldout_s, 0)

extern char *__real__stpcpy_s_chk(char *dest, rsize_t dmax, const char *src, errno_t *errp, const size_t destbos, const size_t srcbos);
char *__wrap__stpcpy_s_chk(char *dest, rsize_t dmax, const char *src, errno_t *errp, const size_t destbos, const size_t srcbos) {
    char *p; BEGIN("stpcpy_s", 1); k.dest = dest; k.dmax = ASZ(dmax, STRMAX); k.src = src; k.dbos = ABOS(destbos, 1); k.sbos = ABOS(srcbos, 1);
    k.src_is_str = 1; k.srclim = k.dmax < 0 ? 8 : k.dmax; k.flags = errp ? 0 : 1;
    RUN(p = __real__stpcpy_s_chk(dest, dmax, src, errp, destbos, srcbos)); emit(&k, errp ? *errp : -7777, AIDX(&k, p), -1, h0); return p; }
extern char *__real__stpncpy_s_chk(char *dest, rsize_t dmax, const char *src, rsize_t slen, errno_t *errp, const size_t destbos, const size_t srcbos);
char *__wrap__stpncpy_s_chk(char *dest, rsize_t dmax, const char *src, rsize_t slen, errno_t *errp, const size_t destbos, const size_t srcbos) {
    char *p; BEGIN("stpncpy_s", 1); k.dest = dest; k.dmax = ASZ(dmax, STRMAX); k.src = src; k.slen = ASZ(slen, STRMAX); k.dbos = ABOS(destbos, 1); k.sbos = ABOS(srcbos, 1);
    k.src_is_str = 1; k.srclim = k.slen < 0 ? (k.dmax < 0 ? 8 : k.dmax) : (k.dmax >= 0 && k.dmax < k.slen ? k.dmax : k.slen); k.flags = errp ? 0 : 1;
    RUN(p = __real__stpncpy_s_chk(dest, dmax, src, slen, errp, destbos, srcbos)); emit(&k, errp ? *errp : -7777, AIDX(&k, p), -1, h0); return p; }

/* ---- memory copy: dmax in bytes for the API, abstract dmax in elements ---- */
#define WRAP_MEMC(NAME, T, W, DMAX_BYTES) \
extern errno_t __real__##NAME##_chk(T *dest, rsize_t dmax, const T *src, rsize_t slen, const size_t destbos, const size_t srcbos); \
errno_t __wrap__##NAME##_chk(T *dest, rsize_t dmax, const T *src, rsize_t slen, const size_t destbos, const size_t srcbos) { \
    errno_t rc; int bad; BEGIN(#NAME, W); k.dest = dest; k.src = src; k.dbos = ABOS(destbos, W); k.sbos = ABOS(srcbos, W); \
    bad = DMAX_BYTES && dmax <= MEMMAX && dmax % W; \
    k.dmax = DMAX_BYTES ? (dmax > MEMMAX ? -1 : (long)(dmax / W)) : (dmax > MEMMAX / W ? -1 : (long)dmax); \
    k.slen = slen > MEMMAX / W ? -1 : (long)slen; k.srclim = k.slen; \
    if (bad || BADBOS) { nskip++; return __real__##NAME##_chk(dest, dmax, src, slen, destbos, srcbos); } \
    RUN(rc = __real__##NAME##_chk(dest, dmax, src, slen, destbos, srcbos)); emit(&k, rc, -1, -1, h0); return rc; }
WRAP_MEMC(memcpy_s, void, 1, 1)
WRAP_MEMC(memmove_s, void, 1, 1)
WRAP_MEMC(memcpy16_s, uint16_t, 2, 1)
WRAP_MEMC(memmove16_s, uint16_t, 2, 1)
WRAP_MEMC(memcpy32_s, uint32_t, 4, 1)
WRAP_MEMC(memmove32_s, uint32_t, 4, 1)
WRAP_MEMC(wmemcpy_s, wchar_t, 4, 0)
WRAP_MEMC(wmemmove_s, wchar_t, 4, 0)

/* ---- fill ---- */
#define WRAP_SET(NAME, T, VT, W) \
extern errno_t __real__##NAME##_chk(T *dest, rsize_t dmax, VT value, rsize_t n, const size_t destbos); \
errno_t __wrap__##NAME##_chk(T *dest, rsize_t dmax, VT value, rsize_t n, const size_t destbos) { \
    errno_t rc; BEGIN(#NAME, W); k.dest = dest; k.dbos = ABOS(destbos, W); k.c = (long)value; \
    k.dmax = dmax > MEMMAX ? -1 : (long)(dmax / W); k.n = n > MEMMAX / W ? -1 : (long)n; \
    if ((dmax <= MEMMAX && dmax % W) || BADBOS) { nskip++; return __real__##NAME##_chk(dest, dmax, value, n, destbos); } \
    RUN(rc = __real__##NAME##_chk(dest, dmax, value, n, destbos)); emit(&k, rc, -1, -1, h0); return rc; }
WRAP_SET(memset_s, void, int, 1)
WRAP_SET(memset16_s, uint16_t, uint16_t, 2)
WRAP_SET(memset32_s, uint32_t, uint32_t, 4)

#define WRAP_D1(NAME, T, W, ABSDMAX, RT, RCEXPR, O1EXPR) \
extern RT __real__##NAME##_chk(T *dest, rsize_t dmax, const size_t destbos); \
RT __wrap__##NAME##_chk(T *dest, rsize_t dmax, const size_t destbos) { \
    RT rc; BEGIN(#NAME, W); k.dest = dest; k.dbos = ABOS(destbos, W); k.dmax = ABSDMAX; \
    if (BADBOS) { nskip++; return __real__##NAME##_chk(dest, dmax, destbos); } \
    RUN(rc = __real__##NAME##_chk(dest, dmax, destbos)); emit(&k, RCEXPR, -1, O1EXPR, h0); return rc; }
WRAP_D1(memzero_s, void, 1, (dmax > MEMMAX ? -1 : (long)dmax), errno_t, rc, -1)
WRAP_D1(memzero16_s, uint16_t, 2, (dmax > MEMMAX / 2 ? -1 : (long)dmax), errno_t, rc, -1)
WRAP_D1(memzero32_s, uint32_t, 4, (dmax > MEMMAX / 4 ? -1 : (long)dmax), errno_t, rc, -1)
WRAP_D1(strzero_s, char, 1, ASZ(dmax, STRMAX), errno_t, rc, -1)
WRAP_D1(strtolowercase_s, char, 1, ASZ(dmax, STRMAX), errno_t, rc, -1)
WRAP_D1(strtouppercase_s, char, 1, ASZ(dmax, STRMAX), errno_t, rc, -1)
WRAP_D1(strljustify_s, char, 1, ASZ(dmax, STRMAX), errno_t, rc, -1)
WRAP_D1(strremovews_s, char, 1, ASZ(dmax, STRMAX), errno_t, rc, -1)
WRAP_D1(strnterminate_s, char, 1, ASZ(dmax, STRMAX), rsize_t, -7777, (long)rc)
WRAP_D1(wcslwr_s, wchar_t, 4, ASZ(dmax, WSTRMAX), errno_t, rc, -1)
WRAP_D1(wcsupr_s, wchar_t, 4, ASZ(dmax, WSTRMAX), errno_t, rc, -1)

extern errno_t __real__strset_s_chk(char *dest, rsize_t dmax, int value, const size_t destbos);
errno_t __wrap__strset_s_chk(char *dest, rsize_t dmax, int value, const size_t destbos) {
    errno_t rc; BEGIN("strset_s", 1); k.dest = dest; k.dbos = ABOS(destbos, 1); k.dmax = ASZ(dmax, STRMAX); k.c = value;
    RUN(rc = __real__strset_s_chk(dest, dmax, value, destbos)); emit(&k, rc, -1, -1, h0); return rc; }
extern errno_t __real__strnset_s_chk(char *dest, rsize_t dmax, int value, rsize_t n, const size_t destbos);
errno_t __wrap__strnset_s_chk(char *dest, rsize_t dmax, int value, rsize_t n, const size_t destbos) {
    errno_t rc; BEGIN("strnset_s", 1); k.dest = dest; k.dbos = ABOS(destbos, 1); k.dmax = ASZ(dmax, STRMAX); k.c = value; k.n = ASZ(n, STRMAX);
    RUN(rc = __real__strnset_s_chk(dest, dmax, value, n, destbos)); emit(&k, rc, -1, -1, h0); return rc; }

/* ---- read-only queries (C10, C02, C05).  Out-parameters: a sentinel is planted so that "left untouched" can be told
 *      from "set"; the caller's previous value is put back when the library did not store anything. ---- */
#define SENT_I (-7777)
#define SENT_Z ((rsize_t)7777)
static char q_untouched[8];
#define PLANT(p, T, S) T q_old = 0; if (p) { q_old = *(p); *(p) = (S); }
#define HARVEST_I(p) long q_o1 = -1; if (p) { q_o1 = (long)*(p); if (*(p) == SENT_I) *(p) = q_old; }
#define HARVEST_Z(p) long q_o1 = -1; if (p) { q_o1 = (long)*(p); if (*(p) == SENT_Z) *(p) = q_old; }
#define HARVEST_P(p, PT) long q_ret = -1; if (p) { q_ret = ((void *)*(p) == (void *)q_untouched) ? -3 : AIDX(&k, *(p)); if ((void *)*(p) == (void *)q_untouched) *(p) = q_old; }

/* (dest, dmax, src, int *resultp, destbos[, srcbos]) */
#define WRAP_CMP(NAME, HAS_SBOS, ISSTR) \
extern errno_t __real__##NAME##_chk(const char *dest, rsize_t dmax, const char *src, int *resultp, const size_t destbos HAS_SBOS(, const size_t srcbos)); \
errno_t __wrap__##NAME##_chk(const char *dest, rsize_t dmax, const char *src, int *resultp, const size_t destbos HAS_SBOS(, const size_t srcbos)) { \
    errno_t rc; BEGIN(#NAME, 1); k.dest = dest; k.dmax = ASZ(dmax, STRMAX); k.src = src; k.dbos = ABOS(destbos, 1); HAS_SBOS(k.sbos = ABOS(srcbos, 1);) \
    k.src_is_str = ISSTR; k.srclim = k.dmax < 0 ? 8 : k.dmax; k.flags = resultp ? 0 : 1; \
    { PLANT(resultp, int, SENT_I) RUN(rc = __real__##NAME##_chk(dest, dmax, src, resultp, destbos HAS_SBOS(, srcbos))); { HARVEST_I(resultp) emit(&k, rc, -1, q_o1, h0); } } return rc; }
#define YES(...) __VA_ARGS__
#define NO(...)
WRAP_CMP(strcmp_s, YES, 1)
WRAP_CMP(strcasecmp_s, NO, 1)
WRAP_CMP(strcmpfld_s, NO, 0)

/* (dest, dmax, src, rsize_t *resultp, destbos) */
#define WRAP_IDX(NAME) \
extern errno_t __real__##NAME##_chk(const char *dest, rsize_t dmax, const char *src, rsize_t *resultp, const size_t destbos); \
errno_t __wrap__##NAME##_chk(const char *dest, rsize_t dmax, const char *src, rsize_t *resultp, const size_t destbos) { \
    errno_t rc; BEGIN(#NAME, 1); k.dest = dest; k.dmax = ASZ(dmax, STRMAX); k.src = src; k.dbos = ABOS(destbos, 1); \
    k.src_is_str = 1; k.srclim = k.dmax < 0 ? 8 : k.dmax; k.flags = resultp ? 0 : 1; \
    { PLANT(resultp, rsize_t, SENT_Z) RUN(rc = __real__##NAME##_chk(dest, dmax, src, resultp, destbos)); { HARVEST_Z(resultp) emit(&k, rc, -1, q_o1, h0); } } return rc; }
WRAP_IDX(strfirstdiff_s)
WRAP_IDX(strfirstsame_s)
WRAP_IDX(strlastdiff_s)
WRAP_IDX(strlastsame_s)

extern errno_t __real__strprefix_s_chk(const char *dest, rsize_t dmax, const char *src, const size_t destbos);
errno_t __wrap__strprefix_s_chk(const char *dest, rsize_t dmax, const char *src, const size_t destbos) {
    errno_t rc; BEGIN("strprefix_s", 1); k.dest = dest; k.dmax = ASZ(dmax, STRMAX); k.src = src; k.dbos = ABOS(destbos, 1); k.src_is_str = 1; k.srclim = k.dmax < 0 ? 8 : k.dmax;
    RUN(rc = __real__strprefix_s_chk(dest, dmax, src, destbos)); emit(&k, rc, -1, -1, h0); return rc; }

/* (dest, dmax, src, slen, T **p, destbos, srcbos) */
#define WRAP_FIND(NAME, T, ST, W, LIM) \
extern errno_t __real__##NAME##_chk(T *dest, rsize_t dmax, ST *src, rsize_t slen, T **p, const size_t destbos, const size_t srcbos); \
errno_t __wrap__##NAME##_chk(T *dest, rsize_t dmax, ST *src, rsize_t slen, T **p, const size_t destbos, const size_t srcbos) { \
    errno_t rc; BEGIN(#NAME, W); k.dest = dest; k.dmax = ASZ(dmax, LIM); k.src = src; k.slen = ASZ(slen, LIM); k.dbos = ABOS(destbos, W); k.sbos = ABOS(srcbos, W); \
    k.src_is_str = 1; k.srclim = k.slen < 0 ? 8 : k.slen; k.flags = p ? 0 : 1; \
    { PLANT(p, T *, (T *)(void *)q_untouched) RUN(rc = __real__##NAME##_chk(dest, dmax, src, slen, p, destbos, srcbos)); { HARVEST_P(p, T) emit(&k, rc, q_ret, -1, h0); } } return rc; }
WRAP_FIND(strstr_s, char, const char, 1, STRMAX)
WRAP_FIND(strcasestr_s, char, const char, 1, STRMAX)
WRAP_FIND(strpbrk_s, char, char, 1, STRMAX)
WRAP_FIND(wcsstr_s, wchar_t, const wchar_t, 4, WSTRMAX)

#define WRAP_SPAN(NAME) \
extern errno_t __real__##NAME##_chk(const char *dest, rsize_t dmax, const char *src, rsize_t slen, rsize_t *countp, const size_t destbos, const size_t srcbos); \
errno_t __wrap__##NAME##_chk(const char *dest, rsize_t dmax, const char *src, rsize_t slen, rsize_t *countp, const size_t destbos, const size_t srcbos) { \
    errno_t rc; BEGIN(#NAME, 1); k.dest = dest; k.dmax = ASZ(dmax, STRMAX); k.src = src; k.slen = ASZ(slen, STRMAX); k.dbos = ABOS(destbos, 1); k.sbos = ABOS(srcbos, 1); \
    k.src_is_str = 1; k.srclim = k.slen < 0 ? 8 : k.slen; k.flags = countp ? 0 : 1; \
    { PLANT(countp, rsize_t, SENT_Z) RUN(rc = __real__##NAME##_chk(dest, dmax, src, slen, countp, destbos, srcbos)); { HARVEST_Z(countp) emit(&k, rc, -1, q_o1, h0); } } return rc; }
WRAP_SPAN(strspn_s)
WRAP_SPAN(strcspn_s)

/* (dest, dmax, ch, T **p, destbos) */
#define WRAP_CHR(NAME, DT, CT, PT, ABSDMAX) \
extern errno_t __real__##NAME##_chk(DT *dest, rsize_t dmax, CT ch, PT **p, const size_t destbos); \
errno_t __wrap__##NAME##_chk(DT *dest, rsize_t dmax, CT ch, PT **p, const size_t destbos) { \
    errno_t rc; BEGIN(#NAME, 1); k.dest = dest; k.dmax = ABSDMAX; k.dbos = ABOS(destbos, 1); k.c = (long)ch; k.flags = p ? 0 : 1; \
    { PLANT(p, PT *, (PT *)(void *)q_untouched) RUN(rc = __real__##NAME##_chk(dest, dmax, ch, p, destbos)); { HARVEST_P(p, PT) emit(&k, rc, q_ret, -1, h0); } } return rc; }
WRAP_CHR(strchr_s, const char, const int, char, ASZ(dmax, STRMAX))
WRAP_CHR(strrchr_s, const char, const int, char, ASZ(dmax, STRMAX))
WRAP_CHR(strfirstchar_s, char, char, char, ASZ(dmax, STRMAX))
WRAP_CHR(strlastchar_s, char, char, char, ASZ(dmax, STRMAX))
WRAP_CHR(memchr_s, const void, const int, void, (dmax > MEMMAX ? -1 : (long)dmax))
WRAP_CHR(memrchr_s, const void, const int, void, (dmax > MEMMAX ? -1 : (long)dmax))

#define WRAP_BOOL(NAME) \
extern bool __real__##NAME##_chk(const char *dest, rsize_t dmax, const size_t destbos); \
bool __wrap__##NAME##_chk(const char *dest, rsize_t dmax, const size_t destbos) { \
    bool rc; BEGIN(#NAME, 1); k.dest = dest; k.dmax = ASZ(dmax, STRMAX); k.dbos = ABOS(destbos, 1); \
    RUN(rc = __real__##NAME##_chk(dest, dmax, destbos)); emit(&k, -7777, -1, (long)rc, h0); return rc; }
WRAP_BOOL(strisalphanumeric_s) WRAP_BOOL(strisascii_s) WRAP_BOOL(strisdigit_s) WRAP_BOOL(strishex_s)
WRAP_BOOL(strislowercase_s) WRAP_BOOL(strismixedcase_s) WRAP_BOOL(strispassword_s) WRAP_BOOL(strisuppercase_s)

extern rsize_t __real__strnlen_s_chk(const char *str, rsize_t smax, size_t strbos);
rsize_t __wrap__strnlen_s_chk(const char *str, rsize_t smax, size_t strbos) {
    rsize_t r; BEGIN("strnlen_s", 1); k.dest = str; k.dmax = ASZ(smax, STRMAX); k.dbos = ABOS(strbos, 1);
    RUN(r = __real__strnlen_s_chk(str, smax, strbos)); emit(&k, -7777, -1, (long)r, h0); return r; }
extern size_t __real__wcsnlen_s_chk(const wchar_t *str, size_t smax, size_t srcbos);
size_t __wrap__wcsnlen_s_chk(const wchar_t *str, size_t smax, size_t srcbos) {
    size_t r; BEGIN("wcsnlen_s", 4); k.dest = str; k.dmax = ASZ(smax, WSTRMAX); k.dbos = ABOS(srcbos, 4);
    if (BADBOS) { nskip++; return __real__wcsnlen_s_chk(str, smax, srcbos); }
    RUN(r = __real__wcsnlen_s_chk(str, smax, srcbos)); emit(&k, -7777, -1, (long)r, h0); return r; }

/* memcmp family: memcmp_s dmax in bytes (= elements), the 16/32/w variants in elements */
#define WRAP_MCMP(NAME, T, W) \
extern errno_t __real__##NAME##_chk(const T *dest, rsize_t dmax, const T *src, rsize_t slen, int *diff, const size_t destbos, const size_t srcbos); \
errno_t __wrap__##NAME##_chk(const T *dest, rsize_t dmax, const T *src, rsize_t slen, int *diff, const size_t destbos, const size_t srcbos) { \
    errno_t rc; BEGIN(#NAME, W); k.dest = dest; k.src = src; k.dbos = ABOS(destbos, W); k.sbos = ABOS(srcbos, W); \
    k.dmax = dmax > MEMMAX / W ? -1 : (long)dmax; k.slen = slen > MEMMAX / W ? -1 : (long)slen; k.srclim = k.slen; k.flags = diff ? 0 : 1; \
    if (BADBOS) { nskip++; return __real__##NAME##_chk(dest, dmax, src, slen, diff, destbos, srcbos); } \
    { PLANT(diff, int, SENT_I) RUN(rc = __real__##NAME##_chk(dest, dmax, src, slen, diff, destbos, srcbos)); { HARVEST_I(diff) emit(&k, rc, -1, q_o1, h0); } } return rc; }
WRAP_MCMP(memcmp_s, void, 1)
WRAP_MCMP(memcmp16_s, uint16_t, 2)
WRAP_MCMP(memcmp32_s, uint32_t, 4)
WRAP_MCMP(wmemcmp_s, wchar_t, 4)

extern errno_t __real__wcscmp_s_chk(const wchar_t *dest, rsize_t dmax, const wchar_t *src, rsize_t smax, int *resultp, const size_t destbos, const size_t srcbos);
errno_t __wrap__wcscmp_s_chk(const wchar_t *dest, rsize_t dmax, const wchar_t *src, rsize_t smax, int *resultp, const size_t destbos, const size_t srcbos) {
    errno_t rc; BEGIN("wcscmp_s", 4); k.dest = dest; k.dmax = ASZ(dmax, WSTRMAX); k.src = src; k.slen = ASZ(smax, WSTRMAX); k.dbos = ABOS(destbos, 4); k.sbos = ABOS(srcbos, 4);
    k.src_is_str = 1; k.srclim = k.slen < 0 ? 8 : k.slen; k.flags = resultp ? 0 : 1;
    if (BADBOS) { nskip++; return __real__wcscmp_s_chk(dest, dmax, src, smax, resultp, destbos, srcbos); }
    { PLANT(resultp, int, SENT_I) RUN(rc = __real__wcscmp_s_chk(dest, dmax, src, smax, resultp, destbos, srcbos)); { HARVEST_I(resultp) emit(&k, rc, -1, q_o1, h0); } } return rc; }

/* natural-order comparisons: (dest, dmax, src, fold_case, int *resultp, destbos, srcbos); the narrow source has no bound of its own */
extern errno_t __real__strnatcmp_s_chk(const char *dest, rsize_t dmax, const char *src, const int fold_case, int *resultp, const size_t destbos, const size_t srcbos);
errno_t __wrap__strnatcmp_s_chk(const char *dest, rsize_t dmax, const char *src, const int fold_case, int *resultp, const size_t destbos, const size_t srcbos) {
    errno_t rc; BEGIN(fold_case ? "strnatcasecmp_s" : "strnatcmp_s", 1); k.dest = dest; k.dmax = ASZ(dmax, STRMAX); k.src = src; k.dbos = ABOS(destbos, 1); k.sbos = ABOS(srcbos, 1);
    k.src_is_str = 1; k.srclim = 390; k.flags = resultp ? 0 : 1;
    if (BADBOS) { nskip++; return __real__strnatcmp_s_chk(dest, dmax, src, fold_case, resultp, destbos, srcbos); }
    { PLANT(resultp, int, SENT_I) RUN(rc = __real__strnatcmp_s_chk(dest, dmax, src, fold_case, resultp, destbos, srcbos)); { HARVEST_I(resultp) emit(&k, rc, -1, q_o1, h0); } } return rc; }

#define WRAP_WCMP2(SYM, EVNAME, EXTRA_DECL, EXTRA_ARG) \
extern errno_t __real__##SYM##_chk(const wchar_t *dest, rsize_t dmax, const wchar_t *src, rsize_t smax, EXTRA_DECL int *resultp, const size_t destbos, const size_t srcbos); \
errno_t __wrap__##SYM##_chk(const wchar_t *dest, rsize_t dmax, const wchar_t *src, rsize_t smax, EXTRA_DECL int *resultp, const size_t destbos, const size_t srcbos) { \
    errno_t rc; BEGIN(EVNAME, 4); k.dest = dest; k.dmax = ASZ(dmax, WSTRMAX); k.src = src; k.slen = ASZ(smax, WSTRMAX); k.dbos = ABOS(destbos, 4); k.sbos = ABOS(srcbos, 4); \
    k.src_is_str = 1; k.srclim = k.slen < 0 ? 8 : k.slen; k.flags = resultp ? 0 : 1; \
    if (BADBOS) { nskip++; return __real__##SYM##_chk(dest, dmax, src, smax, EXTRA_ARG resultp, destbos, srcbos); } \
    { PLANT(resultp, int, SENT_I) RUN(rc = __real__##SYM##_chk(dest, dmax, src, smax, EXTRA_ARG resultp, destbos, srcbos)); { HARVEST_I(resultp) emit(&k, rc, -1, q_o1, h0); } } return rc; }
#define NOTHING
#define FOLD_DECL const int fold_case,
#define FOLD_ARG fold_case,
WRAP_WCMP2(wcsicmp_s, "wcsicmp_s", NOTHING, NOTHING)
WRAP_WCMP2(wcsnatcmp_s, (fold_case ? "wcsnaticmp_s" : "wcsnatcmp_s"), FOLD_DECL, FOLD_ARG)

/* ---- multibyte / wide conversions (C15): events in the format of hmbs, written to $VERIF_WRAPLOG_MBS.  The standard
 *      function is run next to each call on a private buffer with a copy of the conversion state. ---- */
#include <locale.h>
#include <langinfo.h>
static FILE *mlog;
static long mevid;
static void mopen(void) { const char *p; static int done; if (done) return; done = 1; p = getenv("VERIF_WRAPLOG_MBS"); mlog = p ? fopen(p, "a") : NULL; if (mlog) setvbuf(mlog, NULL, _IOLBF, 0); }
static const char *cur_loc(void) {      /* the two codesets the specification knows */
    const char *cs = nl_langinfo(CODESET);
    if (cs && !strcmp(cs, "UTF-8")) return "UTF8";
    if (cs && (!strcmp(cs, "ANSI_X3.4-1968") || !strcmp(cs, "US-ASCII") || !strcmp(cs, "ASCII"))) return "C";
    return 0;
}
#define MCLAMP(v) ((v) == (size_t)-1 ? -1L : ((v) > 1000000000UL ? 1000000000L : (long)(v)))
static void m_emit(int fn, const char *loc, long dmax, long len, int dn, int flags, long start, const long *src, long nsrc,
                   const void *dest, int wide_dest, long rc, size_t ret, long pos, int psinit, int ps0, long lcnt, long lpos, const long *lout, long nlout, int h0) {
    long i;
    static unsigned char buf[4 * 260];
    long nd = (dest && dmax > 0 && dmax <= 256) ? safe_read(dest, buf, dmax * (wide_dest ? 4 : 1)) / (wide_dest ? 4 : 1) : 0;
    fprintf(mlog, "{\"id\":%ld,\"fn\":%d,\"loc\":\"%s\",\"dmax\":%ld,\"len\":%ld,\"dn\":%d,\"flags\":%d,\"start\":%ld,\"src\":[", ++mevid, fn, loc, dmax, len, dn, flags, start);
    for (i = 0; i < nsrc; i++) fprintf(mlog, "%s%ld", i ? "," : "", src[i]);
    fprintf(mlog, "],\"post\":[");
    for (i = 0; i < nd; i++) { long e = get_el(buf + i * (wide_dest ? 4 : 1), wide_dest ? 4 : 1); fprintf(mlog, "%s%ld", i ? "," : "", e > 1500000000L ? 1500000000L : e); }
    fprintf(mlog, "],\"rc\":%ld,\"ret\":%ld,\"pos\":%ld,\"psinit\":%d,\"ps0\":%d,\"lcnt\":%ld,\"lpos\":%ld,\"lout\":[", rc, MCLAMP(ret), pos, psinit, ps0, lcnt, lpos);
    for (i = 0; i < nlout; i++) fprintf(mlog, "%s%ld", i ? "," : "", lout[i]);
    fprintf(mlog, "],\"h\":[");
    for (i = h0; i < h_n && i < 64; i++) fprintf(mlog, "%s%d", i > h0 ? "," : "", h_codes[i]);
    fprintf(mlog, "],\"hn\":%d,\"hk\":\"\",\"frame_ok\":true,\"fault\":\"none\"}\n", h_n - h0);
}
/* the source as a sequence of element values up to and including its terminator (at most 60), 0 elements if unreadable */
static long m_src(const void *p, int w, long *out) {
    static unsigned char buf[4 * 64];
    long got = p ? safe_read(p, buf, 60 * w) / w : 0, i;
    for (i = 0; i < got; i++) { out[i] = get_el(buf + i * w, w); if (out[i] == 0) return i + 1; }
    return -1;      /* no terminator in the window: not expressible */
}
extern errno_t __real__mbstowcs_s_chk(size_t *retvalp, wchar_t *dest, rsize_t dmax, const char *src, rsize_t len, const size_t destbos);
errno_t __wrap__mbstowcs_s_chk(size_t *retvalp, wchar_t *dest, rsize_t dmax, const char *src, rsize_t len, const size_t destbos) {
    long sv[64], lo[160], ns, i, lcnt = -2, nlo = 0; const char *loc; errno_t rc; int h0; size_t lr; static wchar_t lb[160];
    init_once(); mopen(); loc = cur_loc(); ns = m_src(src, 1, sv);
    if (!mlog || !loc || !retvalp || ns < 0 || len > 128 || dmax > 256 || (const void *)dest == (const void *)src /* overlap: not in the vocabulary */ || (dest && destbos != (size_t)-1 && destbos < dmax * sizeof(wchar_t))) { nskip++; return __real__mbstowcs_s_chk(retvalp, dest, dmax, src, len, destbos); }
    errno = 0; lr = mbstowcs(dest ? lb : 0, src, len); lcnt = MCLAMP(lr);
    if (lcnt >= 0 && dest) { nlo = lcnt + 1; for (i = 0; i < nlo && i < 150; i++) lo[i] = i < (long)len || lb[i] == 0 ? (long)lb[i] : -1; if (lcnt == (long)len) nlo = lcnt; }
    h0 = h_n; hook_on(); rc = __real__mbstowcs_s_chk(retvalp, dest, dmax, src, len, destbos); hook_off();
    m_emit(1, loc, (long)dmax, (long)len, dest ? 0 : 1, 0, 1, sv, ns, dest, 1, rc, *retvalp, -2, 1, 1, lcnt, -2, lo, nlo, h0);
    return rc; }
extern errno_t __real__wcstombs_s_chk(size_t *retvalp, char *dest, rsize_t dmax, const wchar_t *src, rsize_t len, const size_t destbos);
errno_t __wrap__wcstombs_s_chk(size_t *retvalp, char *dest, rsize_t dmax, const wchar_t *src, rsize_t len, const size_t destbos) {
    long sv[64], lo[160], ns, i, lcnt = -2, nlo = 0; const char *loc; errno_t rc; int h0; size_t lr; static char lb[160];
    init_once(); mopen(); loc = cur_loc(); ns = m_src(src, 4, sv);
    if (!mlog || !loc || !retvalp || ns < 0 || len > 128 || dmax > 256 || (const void *)dest == (const void *)src || (dest && destbos != (size_t)-1 && destbos < dmax)) { nskip++; return __real__wcstombs_s_chk(retvalp, dest, dmax, src, len, destbos); }
    for (i = 0; i < ns; i++) if (sv[i] > 1500000000L) { nskip++; return __real__wcstombs_s_chk(retvalp, dest, dmax, src, len, destbos); }
    memset(lb, 0x5C, sizeof lb); errno = 0; lr = wcstombs(dest ? lb : 0, src, len); lcnt = MCLAMP(lr);
    if (lcnt >= 0 && dest) { nlo = lcnt < (long)len ? lcnt + 1 : lcnt; for (i = 0; i < nlo && i < 150; i++) lo[i] = (unsigned char)lb[i]; }
    h0 = h_n; hook_on(); rc = __real__wcstombs_s_chk(retvalp, dest, dmax, src, len, destbos); hook_off();
    m_emit(3, loc, (long)dmax, (long)len, dest ? 0 : 1, 0, 1, sv, ns, dest, 0, rc, *retvalp, -2, 1, 1, lcnt, -2, lo, nlo, h0);
    return rc; }
extern errno_t __real__wcrtomb_s_chk(size_t *retvalp, char *dest, rsize_t dmax, wchar_t wc, mbstate_t *ps, const size_t destbos);
errno_t __wrap__wcrtomb_s_chk(size_t *retvalp, char *dest, rsize_t dmax, wchar_t wc, mbstate_t *ps, const size_t destbos) {
    long sv[1], lo[16], i, lcnt, nlo = 0; const char *loc; errno_t rc; int h0, ps0; size_t lr; char lb[32]; mbstate_t lps;
    init_once(); mopen(); loc = cur_loc(); sv[0] = (long)(uint32_t)wc;
    if (!mlog || !loc || !retvalp || !ps || dmax > 256 || sv[0] > 1500000000L || (dest && destbos != (size_t)-1 && destbos < dmax)) { nskip++; return __real__wcrtomb_s_chk(retvalp, dest, dmax, wc, ps, destbos); }
    lps = *ps; ps0 = mbsinit(ps) ? 1 : 0; errno = 0; lr = wcrtomb(lb, wc, &lps); lcnt = MCLAMP(lr);
    if (lcnt >= 0) { nlo = lcnt; for (i = 0; i < nlo; i++) lo[i] = (unsigned char)lb[i]; }
    h0 = h_n; hook_on(); rc = __real__wcrtomb_s_chk(retvalp, dest, dmax, wc, ps, destbos); hook_off();
    m_emit(5, loc, (long)dmax, 0, dest ? 0 : 1, 0, 1, sv, 1, dest, 0, rc, *retvalp, -2, mbsinit(ps) ? 1 : 0, ps0, lcnt, -2, lo, nlo, h0);
    return rc; }
extern errno_t __real__wctomb_s_chk(int *retvalp, char *dest, rsize_t dmax, wchar_t wc, const size_t destbos);
errno_t __wrap__wctomb_s_chk(int *retvalp, char *dest, rsize_t dmax, wchar_t wc, const size_t destbos) {
    long sv[1], lo[16], i, lcnt, nlo = 0; const char *loc; errno_t rc; int h0, r; char lb[32];
    init_once(); mopen(); loc = cur_loc(); sv[0] = (long)(uint32_t)wc;
    if (!mlog || !loc || !retvalp || dmax > 256 || sv[0] > 1500000000L || (dest && destbos != (size_t)-1 && destbos < dmax)) { nskip++; return __real__wctomb_s_chk(retvalp, dest, dmax, wc, destbos); }
    r = wctomb(lb, wc); wctomb(0, 0); lcnt = r < 0 ? -1 : r;
    if (lcnt >= 0) { nlo = lcnt; for (i = 0; i < nlo; i++) lo[i] = (unsigned char)lb[i]; }
    h0 = h_n; hook_on(); rc = __real__wctomb_s_chk(retvalp, dest, dmax, wc, destbos); hook_off();
    m_emit(6, loc, (long)dmax, 0, dest ? 0 : 1, 0, 1, sv, 1, dest, 0, rc, *retvalp < 0 ? (size_t)-1 : (size_t)*retvalp, -2, 1, 1, lcnt, -2, lo, nlo, h0);
    return rc; }

/* ---- tokenizer sessions (C14): events in the format of htok, written to $VERIF_WRAPLOG_TOK.  A call with a non-null
 *      dest opens a session (Reset event with the buffer); calls with a null dest continue it. ---- */
static FILE *tlog;
static void topen(void) { const char *p; static int done; if (done) return; done = 1; p = getenv("VERIF_WRAPLOG_TOK"); tlog = p ? fopen(p, "a") : NULL; if (tlog) setvbuf(tlog, NULL, _IOLBF, 0); }
static long t_sid, t_eid, t_n[2], t_lastdm[2];
static const unsigned char *t_base[2];
static unsigned char t_last[2][4 * 420];      /* the buffer as the previous call of the session left it: a test that rewrites it between calls ends the session */
static void t_cells(const unsigned char *b, long n, int w) {
    static unsigned char buf[4 * 420];
    long i, got = safe_read(b, buf, n * w) / w;
    for (i = 0; i < got; i++) fprintf(tlog, "%s%ld", i ? "," : "", get_el(buf + i * w, w));
}
static void *tok_common(int w, void *dest, rsize_t *dmaxp, const void *delim, void **ptr, const size_t destbos) {
    extern char *__real__strtok_s_chk(char *dest, rsize_t *dmaxp, const char *delim, char **ptr, const size_t destbos);
    extern wchar_t *__real__wcstok_s_chk(wchar_t *dest, rsize_t *dmaxp, const wchar_t *delim, wchar_t **ptr, const size_t destbos);
    int z = w == 1 ? 0 : 1, h0, en, ok = 1;
    long dl[64], nd = 0, pin = 0, din = 0, i;
    void *ret;
    init_once(); topen();
    if (!tlog || !dmaxp || !delim || !ptr) ok = 0;
    if (ok) {
        static unsigned char db[4 * 64];
        long got = safe_read(delim, db, 63 * w) / w;
        for (i = 0; i < got; i++) { dl[i] = get_el(db + i * w, w); if (dl[i] == 0) break; }
        if (i == got) ok = 0;          /* no terminator in the window */
        nd = i;
        din = (long)*dmaxp;
    }
    if (ok && dest) {
        static unsigned char tb[4 * 420];
        long n = din + 1;
        if (din < 1 || din > 400 || (destbos != (size_t)-1 && destbos < (size_t)din * w)) ok = 0;     /* (a dmax above the known object size: not in the tokenizer's vocabulary) */
        else {
            long got = safe_read(dest, tb, n * w) / w;
            if (got < din) ok = 0;
            else {
                t_base[z] = dest; t_n[z] = got; t_sid++; t_eid = t_sid * 1000;
                fprintf(tlog, "{\"e\":\"Reset\",\"id\":%ld,\"sid\":%ld,\"w\":%d,\"buf\":[", t_eid++, t_sid, w);
                t_cells(t_base[z], t_n[z], w);
                fprintf(tlog, "],\"dmax\":%ld}\n", din);
            }
        }
    } else if (ok) {
        const unsigned char *p = *ptr;
        if (!t_base[z] || !p || p < t_base[z] || p > t_base[z] + t_n[z] * w) ok = 0;
        else {
            static unsigned char cur[4 * 420];
            long got = safe_read(t_base[z], cur, t_n[z] * w);
            if (got != t_n[z] * w || memcmp(cur, t_last[z], got) || din != t_lastdm[z]) { ok = 0; t_base[z] = 0; }
            else pin = (long)(p - t_base[z]) / w + 1;
        }
    }
    if (!ok) {
        nskip++;
        if (dest) t_base[z] = 0;       /* a session we could not open: its continuation calls are skipped as well */
        return w == 1 ? (void *)__real__strtok_s_chk(dest, dmaxp, delim, (char **)ptr, destbos) : (void *)__real__wcstok_s_chk(dest, dmaxp, delim, (wchar_t **)ptr, destbos);
    }
    h0 = h_n; errno = 0; hook_on();
    ret = w == 1 ? (void *)__real__strtok_s_chk(dest, dmaxp, delim, (char **)ptr, destbos) : (void *)__real__wcstok_s_chk(dest, dmaxp, delim, (wchar_t **)ptr, destbos);
    hook_off(); en = errno;
    {
        const unsigned char *p = *ptr;
        long ptri = p ? ((p >= t_base[z] && p <= t_base[z] + t_n[z] * w) ? (long)(p - t_base[z]) / w + 1 : -2) : 0;
        fprintf(tlog, "{\"e\":\"tok\",\"id\":%ld,\"sid\":%ld,\"first\":%s,\"delim\":[", t_eid++, t_sid, dest ? "true" : "false");
        for (i = 0; i < nd; i++) fprintf(tlog, "%s%ld", i ? "," : "", dl[i]);
        fprintf(tlog, "],\"pin\":%ld,\"din\":%ld,\"ret\":%ld,\"post\":[", pin, din, ret ? (long)((const unsigned char *)ret - t_base[z]) / w + 1 : 0L);
        t_cells(t_base[z], t_n[z], w);
        fprintf(tlog, "],\"ptr\":%ld,\"dmaxp\":%ld,\"h\":[", ptri, (long)*dmaxp);
        for (i = h0; i < h_n && i < 64; i++) fprintf(tlog, "%s%d", i > h0 ? "," : "", h_codes[i]);
        fprintf(tlog, "],\"hn\":%d,\"hk\":\"\",\"errno\":%d,\"fault\":\"none\",\"foff\":0}\n", h_n - h0, en);
    }
    safe_read(t_base[z], t_last[z], t_n[z] * w);
    t_lastdm[z] = (long)*dmaxp;
    errno = en;
    return ret;
}
char *__wrap__strtok_s_chk(char *dest, rsize_t *dmaxp, const char *delim, char **ptr, const size_t destbos) {
    return tok_common(1, dest, dmaxp, delim, (void **)ptr, destbos); }
wchar_t *__wrap__wcstok_s_chk(wchar_t *dest, rsize_t *dmaxp, const wchar_t *delim, wchar_t **ptr, const size_t destbos) {
    return tok_common(4, dest, dmaxp, delim, (void **)ptr, destbos); }

/* ---- OS-facing string functions (events in the format of hos -> $VERIF_WRAPLOG_OS) and wcsnorm_s (format of hnorm ->
 *      $VERIF_WRAPLOG_NORM) ---- */
#include <time.h>
static FILE *olog, *nlog;
static long oevid, nevid;
static void oopen(void) { const char *p; static int done; if (done) return; done = 1; p = getenv("VERIF_WRAPLOG_OS"); olog = p ? fopen(p, "a") : NULL; if (olog) setvbuf(olog, NULL, _IOLBF, 0);
                          p = getenv("VERIF_WRAPLOG_NORM"); nlog = p ? fopen(p, "a") : NULL; if (nlog) setvbuf(nlog, NULL, _IOLBF, 0); }
static void o_emit(int fn, const char *dest, long dmax, const long *args, int na, const char *ref, long refn, long rc, size_t lenv, int h0) {
    static unsigned char buf[320];
    long i, nd = (dest && dmax > 0 && dmax <= 300) ? safe_read(dest, buf, dmax) : 0;
    fprintf(olog, "{\"id\":%ld,\"fn\":%d,\"dmax\":%ld,\"dnull\":%d,\"pre\":1,\"args\":[", ++oevid, fn, dmax, dest ? 0 : 1);
    for (i = 0; i < na; i++) fprintf(olog, "%s%ld", i ? "," : "", args[i] > 2000000000L ? 2000000000L : args[i] < -2000000000L ? -2000000000L : args[i]);
    fprintf(olog, "],\"post\":[");
    for (i = 0; i < nd; i++) fprintf(olog, "%s%d", i ? "," : "", buf[i]);
    fprintf(olog, "],\"ref\":[");
    for (i = 0; i < refn && i < 250; i++) fprintf(olog, "%s%d", i ? "," : "", (unsigned char)ref[i]);
    fprintf(olog, "],\"refn\":%ld,\"rc\":%ld,\"len\":%ld,\"same\":-1,\"tyear\":0,\"h\":[", refn, rc, lenv > 1000000000UL ? -1L : (long)lenv);
    for (i = h0; i < h_n && i < 64; i++) fprintf(olog, "%s%d", i > h0 ? "," : "", h_codes[i]);
    fprintf(olog, "],\"hn\":%d,\"hk\":\"\",\"frame_ok\":true,\"fault\":\"none\"}\n", h_n - h0);
}
#define OS_SKIP(dest, dmax, destbos) (!olog || ((dest) && (destbos) != (size_t)-1 && (destbos) != (size_t)(dmax)) || (dmax) > 300)
extern errno_t __real__strerror_s_chk(char *dest, rsize_t dmax, errno_t errnum, const size_t destbos);
errno_t __wrap__strerror_s_chk(char *dest, rsize_t dmax, errno_t errnum, const size_t destbos) {
    errno_t rc; int h0; long a[1]; const char *m; init_once(); oopen();
    if (OS_SKIP(dest, dmax, destbos)) { nskip++; return __real__strerror_s_chk(dest, dmax, errnum, destbos); }
    m = strerror(errnum); a[0] = errnum;
    h0 = h_n; hook_on(); rc = __real__strerror_s_chk(dest, dmax, errnum, destbos); hook_off();
    o_emit(1, dest, (long)dmax, a, 1, m, (long)strlen(m), rc, 777777, h0); return rc; }
extern errno_t __real__asctime_s_chk(char *dest, rsize_t dmax, const struct tm *tm, const size_t destbos);
errno_t __wrap__asctime_s_chk(char *dest, rsize_t dmax, const struct tm *tm, const size_t destbos) {
    errno_t rc; int h0; long a[10] = {1, 0, 0, 0, 1, 0, 99, 0, 0, 0}; char tb[128]; long refn = -1; init_once(); oopen();
    if (OS_SKIP(dest, dmax, destbos)) { nskip++; return __real__asctime_s_chk(dest, dmax, tm, destbos); }
    if (tm) { a[0] = 0; a[1] = tm->tm_sec; a[2] = tm->tm_min; a[3] = tm->tm_hour; a[4] = tm->tm_mday; a[5] = tm->tm_mon; a[6] = tm->tm_year; a[7] = tm->tm_wday; a[8] = tm->tm_yday; a[9] = tm->tm_isdst;
              if (a[5] >= 0 && a[5] <= 11 && a[7] >= 0 && a[7] <= 6 && a[6] > -2000 && a[6] < 8100 && asctime_r(tm, tb)) refn = (long)strlen(tb); }
    h0 = h_n; hook_on(); rc = __real__asctime_s_chk(dest, dmax, tm, destbos); hook_off();
    o_emit(2, dest, (long)dmax, a, 10, tb, refn, rc, 777777, h0); return rc; }
extern errno_t __real__ctime_s_chk(char *dest, rsize_t dmax, const time_t *timer, const size_t destbos);
errno_t __wrap__ctime_s_chk(char *dest, rsize_t dmax, const time_t *timer, const size_t destbos) {
    errno_t rc; int h0; long a[2] = {1, 0}; char tb[128]; long refn = -1; init_once(); oopen();
    if (OS_SKIP(dest, dmax, destbos)) { nskip++; return __real__ctime_s_chk(dest, dmax, timer, destbos); }
    if (timer) { a[0] = 0; a[1] = *timer >= 313360441200L ? 2000000000L : (*timer > 1999999999L ? 1999999999L : (long)*timer);
                 if (*timer >= 0 && *timer < 313360441200L && ctime_r(timer, tb)) refn = (long)strlen(tb); }
    h0 = h_n; hook_on(); rc = __real__ctime_s_chk(dest, dmax, timer, destbos); hook_off();
    o_emit(3, dest, (long)dmax, a, 2, tb, refn, rc, 777777, h0); return rc; }
extern errno_t __real__getenv_s_chk(size_t *len, char *dest, rsize_t dmax, const char *name, const size_t destbos);
errno_t __wrap__getenv_s_chk(size_t *len, char *dest, rsize_t dmax, const char *name, const size_t destbos) {
    errno_t rc; int h0; long a[2]; const char *v; size_t lv = 777777; init_once(); oopen();
    if (OS_SKIP(dest, dmax, destbos)) { nskip++; return __real__getenv_s_chk(len, dest, dmax, name, destbos); }
    v = name ? getenv(name) : 0; a[0] = len ? 0 : 1; a[1] = name ? 0 : 4;
    if (v && strlen(v) > 240) { nskip++; return __real__getenv_s_chk(len, dest, dmax, name, destbos); }
    h0 = h_n; hook_on(); rc = __real__getenv_s_chk(len, dest, dmax, name, destbos); hook_off();
    if (len) lv = *len;
    o_emit(4, dest, (long)dmax, a, 2, v, v ? (long)strlen(v) : -1, rc, lv, h0); return rc; }

extern errno_t __real__wcsnorm_s_chk(wchar_t *dest, rsize_t dmax, const wchar_t *src, const wcsnorm_mode_t mode, rsize_t *lenp, const size_t destbos);
errno_t __wrap__wcsnorm_s_chk(wchar_t *dest, rsize_t dmax, const wchar_t *src, const wcsnorm_mode_t mode, rsize_t *lenp, const size_t destbos) {
    errno_t rc; int h0; long sv[64], ns, i, nd; static unsigned char buf[4 * 420]; rsize_t lv = 77777;
    init_once(); oopen(); ns = m_src(src, 4, sv);
    if (!nlog || !dest || !lenp || ns < 1 || dmax > 400 || dmax < 1 || (mode != WCSNORM_NFD && mode != WCSNORM_NFC) || (destbos != (size_t)-1 && destbos < dmax * sizeof(wchar_t))) { nskip++; return __real__wcsnorm_s_chk(dest, dmax, src, mode, lenp, destbos); }
    h0 = h_n; hook_on(); rc = __real__wcsnorm_s_chk(dest, dmax, src, mode, lenp, destbos); hook_off();
    if (lenp) lv = *lenp;
    nd = safe_read(dest, buf, dmax * 4) / 4;
    fprintf(nlog, "{\"id\":%ld,\"op\":\"n\",\"mode\":%d,\"dmax\":%ld,\"s\":[", ++nevid, mode == WCSNORM_NFC ? 1 : 0, (long)dmax);
    for (i = 0; i < ns - 1; i++) fprintf(nlog, "%s%ld", i ? "," : "", sv[i] > 2000000000L ? 2000000000L : sv[i]);
    fprintf(nlog, "],\"post\":[");
    for (i = 0; i < nd; i++) { long e = get_el(buf + i * 4, 4); fprintf(nlog, "%s%ld", i ? "," : "", e > 2000000000L ? 2000000000L : e); }
    fprintf(nlog, "],\"rc\":%ld,\"len\":%ld,\"h\":[", (long)rc, (long)lv);
    for (i = h0; i < h_n && i < 64; i++) fprintf(nlog, "%s%d", i > h0 ? "," : "", h_codes[i]);
    fprintf(nlog, "],\"hn\":%d,\"hk\":\"\",\"frame_ok\":true,\"fault\":\"none\"}\n", h_n - h0);
    return rc; }
