/* hts: executor/recorder for timingsafe_bcmp / timingsafe_memcmp (C19).
 *   hts r            results: stdin lines "id fn n a1..an b1..bn" -> one JSON event per call (operands flush against
 *                    an inaccessible page)
 *   hts t fn n k     taint run (under valgrind memcheck): both regions are marked undefined before the call; the number
 *                    of errors memcheck reports inside the call (a conditional jump / address depending on the contents)
 *                    is printed.  k selects the content pattern.
 *   hts s fn n k     shape run (under valgrind lackey --trace-mem): just the call, on operands at fixed addresses; the
 *                    driver cuts the instruction / access trace to the function's address range (nm -S; built -no-pie).
 * fn: 1 timingsafe_bcmp, 2 timingsafe_memcmp.  No expectations in here. */
#include "hcommon.h"
#include <valgrind/memcheck.h>

#define NMAX 4096
static unsigned char A[NMAX] __attribute__((aligned(64))), B[NMAX] __attribute__((aligned(64)));

static void fill(long n, long k) {
    long i;
    /* k: 0 equal zeros; 1 equal pattern; 2 differ at first byte (a<b); 3 differ at last byte (a>b); 4 differ in the middle;
          5 all different, high bits; 6 pseudo-random pair; 7 another pseudo-random pair */
    for (i = 0; i < n; i++) {
        unsigned char x = (unsigned char)(i * 37 + 11);
        switch (k) {
        case 0: A[i] = B[i] = 0; break;
        case 1: A[i] = B[i] = x; break;
        case 2: A[i] = B[i] = x; break;
        case 3: A[i] = B[i] = x; break;
        case 4: A[i] = B[i] = x; break;
        case 5: A[i] = 0xFF - (unsigned char)i; B[i] = (unsigned char)i | 0x80; break;
        case 6: A[i] = (unsigned char)((i * 1103515245u + 12345u) >> 7); B[i] = (unsigned char)((i * 69069u + 1u) >> 5); break;
        default: A[i] = (unsigned char)((i * 2654435761u) >> 9); B[i] = (unsigned char)((i * 40503u + 7u) >> 3); break;
        }
    }
    if (n > 0) {
        if (k == 2) { A[0] = 1; B[0] = 200; }
        if (k == 3) { A[n - 1] = 200; B[n - 1] = 1; }
        if (k == 4) { A[n / 2] = 0x7F; B[n / 2] = 0x80; }
    }
}

static int call(long fn, const void *a, const void *b, size_t n) {
    return fn == 1 ? _timingsafe_bcmp_chk(a, b, n, BOSU, BOSU) : _timingsafe_memcmp_chk(a, b, n, BOSU, BOSU);
}

int main(int argc, char **argv) {
    if (argc < 2) return 2;
    if (argv[1][0] == 'r') {
        region_t RA = h_region(2), RB = h_region(2);
        long id, fn, n, i;
        h_install_signals();
        h_install_handlers();
        while (scanf("%ld %ld %ld", &id, &fn, &n) == 3) {
            unsigned char *a = (unsigned char *)RA.rw + RA.rwlen - n, *b = (unsigned char *)RB.rw + RB.rwlen - n;
            long v, ret = -9999;
            int fk = 0;
            for (i = 0; i < n; i++) { scanf("%ld", &v); a[i] = (unsigned char)v; }
            for (i = 0; i < n; i++) { scanf("%ld", &v); b[i] = (unsigned char)v; }
            h_n = 0; h_fault_kind = 0;
            if (!sigsetjmp(h_jb, 1)) {
                h_armed = 1; alarm(5);
                ret = call(fn, a, b, (size_t)n);
                alarm(0); h_armed = 0;
            } else { alarm(0); fk = h_fault_kind; }
            printf("{\"e\":\"res\",\"id\":%ld,\"fn\":%ld,\"n\":%ld,\"a\":[", id, fn, n);
            for (i = 0; i < n; i++) printf("%s%d", i ? "," : "", a[i]);
            printf("],\"b\":[");
            for (i = 0; i < n; i++) printf("%s%d", i ? "," : "", b[i]);
            printf("],\"ret\":%ld,\"hn\":%d,\"fault\":\"%s\"}\n", ret, h_n, h_fault_name(fk));
        }
        return 0;
    } else {
        long fn = atol(argv[2]), n = atol(argv[3]), k = atol(argv[4]);
        volatile int r;
        if (n > NMAX) return 2;
        fill(n, k);
        if (argv[1][0] == 't') {
            unsigned before, after;
            int rr;
            VALGRIND_MAKE_MEM_UNDEFINED(A, n);
            VALGRIND_MAKE_MEM_UNDEFINED(B, n);
            before = VALGRIND_COUNT_ERRORS;
            rr = call(fn, A, B, (size_t)n);
            after = VALGRIND_COUNT_ERRORS;
            VALGRIND_MAKE_MEM_DEFINED(&rr, sizeof rr);
            printf("{\"e\":\"taint\",\"fn\":%ld,\"n\":%ld,\"k\":%ld,\"errors\":%u,\"valgrind\":%d}\n", fn, n, k, after - before, (int)RUNNING_ON_VALGRIND);
        } else {
            r = call(fn, A, B, (size_t)n);
            printf("{\"e\":\"run\",\"fn\":%ld,\"n\":%ld,\"k\":%ld,\"ret\":%d,\"A\":%lu,\"B\":%lu}\n", fn, n, k, r, (unsigned long)A, (unsigned long)B);
        }
        return 0;
    }
}
