/* hx: executor/recorder for the single-arena families (copy, concatenate, field, fill,
 * transform, query, memory).
 *
 * stdin : one case per line
 *   id fn w d dmax s slen c n dbos sbos flags place na v1..vna
 *     w      element width of the arena (1,2,4)
 *     d,s    1-based element index into the arena, 0 = NULL
 *     dmax,slen,n   abstract element counts, -1 = HUGE (the family's RSIZE limit + 1)
 *     c      value / character argument
 *     dbos,sbos  object size known to the library in elements, -1 = unknown
 *     flags  bit0: out-parameter is NULL
 *     place  0 = arena flush against the trailing guard page, 1 = flush against the leading one
 * stdout: one JSON event per case (the case echoed + post, rc, handler log, ret, o1, fault)
 * The program contains no expectations.
 */
#include "hcommon.h"

static region_t R;
static char *NOZ;
static unsigned char *shadow;

typedef struct {
    long id;
    char fn[40];
    int w, d, s, c, flags, place, na;
    long dmax, slen, n, dbos, sbos;
    long v[512];
} case_t;

typedef struct {
    long rc;      /* function's status channel */
    long ret;     /* returned / out pointer as arena index (0 NULL, -2 outside), or count */
    long o1;      /* scalar out parameter */
    int has_ret, has_o1;
} res_t;

static char *arena;
static int AW;

static void *P(int idx) { return idx ? (void *)(arena + (long)(idx - 1) * AW) : NULL; }
static long IDX(const void *p, int na) {
    long off;
    if (!p) return 0;
    off = (const char *)p - arena;
    if (off < 0 || off > (long)na * AW || off % AW) return -2;
    return off / AW + 1;
}
static size_t B(long bos, int w) { return bos < 0 ? BOSU : (size_t)bos * w; }

/* size realisation: HUGE -> limit+1 */
static rsize_t SZ(long a, rsize_t lim) { return a < 0 ? lim + 1 : (rsize_t)a; }

#define STRMAX RSIZE_MAX_STR
#define WSTRMAX RSIZE_MAX_WSTR
#define MEMMAX RSIZE_MAX_MEM

typedef void (*thunk_t)(const case_t *, res_t *);

/* operand pointers: an operand whose size argument is HUGE lives in inaccessible memory */
static void *DP(const case_t *c) { return c->d && c->dmax < 0 ? (void *)NOZ : P(c->d); }
static void *SP(const case_t *c) { return P(c->s); }

#define T(name) static void t_##name(const case_t *c, res_t *r)

/* ---- copy / concatenate (char) ---- */
T(strcpy_s) { r->rc = _strcpy_s_chk(DP(c), SZ(c->dmax, STRMAX), SP(c), B(c->dbos, 1)); }
T(strcat_s) { r->rc = _strcat_s_chk(DP(c), SZ(c->dmax, STRMAX), SP(c), B(c->dbos, 1)); }
T(strncpy_s) { r->rc = _strncpy_s_chk(DP(c), SZ(c->dmax, STRMAX), SP(c), SZ(c->slen, STRMAX), B(c->dbos, 1), B(c->sbos, 1)); }
T(strncat_s) { r->rc = _strncat_s_chk(DP(c), SZ(c->dmax, STRMAX), SP(c), SZ(c->slen, STRMAX), B(c->dbos, 1), B(c->sbos, 1)); }
T(stpcpy_s) {
    errno_t e = -7777;
    char *p = _stpcpy_s_chk(DP(c), SZ(c->dmax, STRMAX), SP(c), (c->flags & 1) ? NULL : &e, B(c->dbos, 1), B(c->sbos, 1));
    r->rc = e; r->ret = IDX(p, c->na); r->has_ret = 1;
}
T(stpncpy_s) {
    errno_t e = -7777;
    char *p = _stpncpy_s_chk(DP(c), SZ(c->dmax, STRMAX), SP(c), SZ(c->slen, STRMAX), (c->flags & 1) ? NULL : &e, B(c->dbos, 1), B(c->sbos, 1));
    r->rc = e; r->ret = IDX(p, c->na); r->has_ret = 1;
}
T(strcpyfld_s) { r->rc = _strcpyfld_s_chk(DP(c), SZ(c->dmax, STRMAX), SP(c), SZ(c->slen, STRMAX), B(c->dbos, 1)); }
T(strcpyfldin_s) { r->rc = _strcpyfldin_s_chk(DP(c), SZ(c->dmax, STRMAX), SP(c), SZ(c->slen, STRMAX), B(c->dbos, 1)); }
T(strcpyfldout_s) { r->rc = _strcpyfldout_s_chk(DP(c), SZ(c->dmax, STRMAX), SP(c), SZ(c->slen, STRMAX), B(c->dbos, 1)); }
/* ---- wide ---- */
T(wcscpy_s) { r->rc = _wcscpy_s_chk(DP(c), SZ(c->dmax, WSTRMAX), SP(c), B(c->dbos, 4)); }
T(wcscat_s) { r->rc = _wcscat_s_chk(DP(c), SZ(c->dmax, WSTRMAX), SP(c), B(c->dbos, 4)); }
T(wcsncpy_s) { r->rc = _wcsncpy_s_chk(DP(c), SZ(c->dmax, WSTRMAX), SP(c), SZ(c->slen, WSTRMAX), B(c->dbos, 4), B(c->sbos, 4)); }
T(wcsncat_s) { r->rc = _wcsncat_s_chk(DP(c), SZ(c->dmax, WSTRMAX), SP(c), SZ(c->slen, WSTRMAX), B(c->dbos, 4), B(c->sbos, 4)); }
/* ---- memory copy: dmax in bytes for the API; abstract dmax is in elements ---- */
static rsize_t MB(long a, int w) { return a < 0 ? MEMMAX + 1 : (rsize_t)a * w; }
static rsize_t MN(long a, int w) { return a < 0 ? MEMMAX / w + 1 : (rsize_t)a; }
T(memcpy_s) { r->rc = _memcpy_s_chk(DP(c), MB(c->dmax, 1), SP(c), MN(c->slen, 1), B(c->dbos, 1), B(c->sbos, 1)); }
T(memmove_s) { r->rc = _memmove_s_chk(DP(c), MB(c->dmax, 1), SP(c), MN(c->slen, 1), B(c->dbos, 1), B(c->sbos, 1)); }
/* a HUGE element count of the 16- / 32-bit functions is realised in two ways, by case id: the limit + 1, and a count whose size in
   bytes wraps around to a small number (SIZE_MAX / w + 2 elements are 2 * w - ... bytes modulo 2^64): both are above the limit */
static rsize_t MNW(const case_t *c, long a, int w) { return a < 0 ? ((c->id & 1) ? (rsize_t)-1 / w + 2 : MEMMAX / w + 1) : (rsize_t)a; }
T(memcpy16_s) { r->rc = _memcpy16_s_chk(DP(c), MB(c->dmax, 2), SP(c), MNW(c, c->slen, 2), B(c->dbos, 2), B(c->sbos, 2)); }
T(memmove16_s) { r->rc = _memmove16_s_chk(DP(c), MB(c->dmax, 2), SP(c), MNW(c, c->slen, 2), B(c->dbos, 2), B(c->sbos, 2)); }
T(memcpy32_s) { r->rc = _memcpy32_s_chk(DP(c), MB(c->dmax, 4), SP(c), MNW(c, c->slen, 4), B(c->dbos, 4), B(c->sbos, 4)); }
T(memmove32_s) { r->rc = _memmove32_s_chk(DP(c), MB(c->dmax, 4), SP(c), MNW(c, c->slen, 4), B(c->dbos, 4), B(c->sbos, 4)); }
/* wmem*: dmax and smax in wchar_t elements */
T(wmemcpy_s) { r->rc = _wmemcpy_s_chk(DP(c), MN(c->dmax, 4), SP(c), MNW(c, c->slen, 4), B(c->dbos, 4), B(c->sbos, 4)); }
T(wmemmove_s) { r->rc = _wmemmove_s_chk(DP(c), MN(c->dmax, 4), SP(c), MNW(c, c->slen, 4), B(c->dbos, 4), B(c->sbos, 4)); }
T(memccpy_s) { r->rc = _memccpy_s_chk(DP(c), MB(c->dmax, 1), SP(c), c->c, MN(c->n, 1), B(c->dbos, 1), B(c->sbos, 1)); }
/* ---- fill ---- */
T(memset_s) { r->rc = _memset_s_chk(DP(c), MB(c->dmax, 1), c->c, MN(c->n, 1), B(c->dbos, 1)); }
T(memset16_s) { r->rc = _memset16_s_chk(DP(c), MB(c->dmax, 2), (uint16_t)c->c, MN(c->n, 2), B(c->dbos, 2)); }
T(memset32_s) { r->rc = _memset32_s_chk(DP(c), MB(c->dmax, 4), (uint32_t)c->c, MN(c->n, 4), B(c->dbos, 4)); }
T(memzero_s) { r->rc = _memzero_s_chk(DP(c), MB(c->dmax, 1), B(c->dbos, 1)); }
T(memzero16_s) { r->rc = _memzero16_s_chk(DP(c), MN(c->dmax, 2), B(c->dbos, 2)); }
T(memzero32_s) { r->rc = _memzero32_s_chk(DP(c), MN(c->dmax, 4), B(c->dbos, 4)); }
T(strzero_s) { r->rc = _strzero_s_chk(DP(c), SZ(c->dmax, STRMAX), B(c->dbos, 1)); }
T(strset_s) { r->rc = _strset_s_chk(DP(c), SZ(c->dmax, STRMAX), c->c, B(c->dbos, 1)); }
T(strnset_s) { r->rc = _strnset_s_chk(DP(c), SZ(c->dmax, STRMAX), c->c, SZ(c->n, STRMAX), B(c->dbos, 1)); }
T(wcsset_s) { r->rc = _wcsset_s_chk(DP(c), SZ(c->dmax, WSTRMAX), (wchar_t)c->c, B(c->dbos, 4)); }
T(wcsnset_s) { r->rc = _wcsnset_s_chk(DP(c), SZ(c->dmax, WSTRMAX), (wchar_t)c->c, SZ(c->n, WSTRMAX), B(c->dbos, 4)); }
/* ---- in-place transforms ---- */
T(strtolowercase_s) { r->rc = _strtolowercase_s_chk(DP(c), SZ(c->dmax, STRMAX), B(c->dbos, 1)); }
T(strtouppercase_s) { r->rc = _strtouppercase_s_chk(DP(c), SZ(c->dmax, STRMAX), B(c->dbos, 1)); }
T(strljustify_s) { r->rc = _strljustify_s_chk(DP(c), SZ(c->dmax, STRMAX), B(c->dbos, 1)); }
T(strremovews_s) { r->rc = _strremovews_s_chk(DP(c), SZ(c->dmax, STRMAX), B(c->dbos, 1)); }
T(strnterminate_s) { r->rc = -7777; r->o1 = (long)_strnterminate_s_chk(DP(c), SZ(c->dmax, STRMAX), B(c->dbos, 1)); r->has_o1 = 1; }
T(wcslwr_s) { r->rc = _wcslwr_s_chk(DP(c), SZ(c->dmax, WSTRMAX), B(c->dbos, 4)); }
T(wcsupr_s) { r->rc = _wcsupr_s_chk(DP(c), SZ(c->dmax, WSTRMAX), B(c->dbos, 4)); }
/* ---- queries ---- */
T(strnlen_s) { r->rc = -7777; r->o1 = (long)_strnlen_s_chk(DP(c), SZ(c->dmax, STRMAX), B(c->dbos, 1)); r->has_o1 = 1; }
T(wcsnlen_s) { r->rc = -7777; r->o1 = (long)_wcsnlen_s_chk(DP(c), SZ(c->dmax, WSTRMAX), B(c->dbos, 4)); r->has_o1 = 1; }
#define OUTI int o = -7777; int *op = (c->flags & 1) ? NULL : &o
#define OUTZ rsize_t o = 7777; rsize_t *op = (c->flags & 1) ? NULL : &o
static char h_untouched[8];
#define OUTP char *o = (char *)h_untouched; char **op = (c->flags & 1) ? NULL : &o
#define FINI r->o1 = (long)o; r->has_o1 = 1
#define FINP r->ret = ((void *)o == (void *)h_untouched) ? -3 : IDX(o, c->na); r->has_ret = 1
T(strcmp_s) { OUTI; r->rc = _strcmp_s_chk(DP(c), SZ(c->dmax, STRMAX), SP(c), op, B(c->dbos, 1), B(c->sbos, 1)); FINI; }
T(strcasecmp_s) { OUTI; r->rc = _strcasecmp_s_chk(DP(c), SZ(c->dmax, STRMAX), SP(c), op, B(c->dbos, 1)); FINI; }
T(strnatcmp_s) { OUTI; r->rc = _strnatcmp_s_chk(DP(c), SZ(c->dmax, STRMAX), SP(c), 0, op, B(c->dbos, 1), B(c->sbos, 1)); FINI; }
T(strnatcasecmp_s) { OUTI; r->rc = _strnatcmp_s_chk(DP(c), SZ(c->dmax, STRMAX), SP(c), 1, op, B(c->dbos, 1), B(c->sbos, 1)); FINI; }
T(strcmpfld_s) { OUTI; r->rc = _strcmpfld_s_chk(DP(c), SZ(c->dmax, STRMAX), SP(c), op, B(c->dbos, 1)); FINI; }
T(strcoll_s) { OUTI; r->rc = _strcoll_s_chk(DP(c), SZ(c->dmax, STRMAX), SP(c), op, B(c->dbos, 1)); FINI; }
T(strstr_s) { OUTP; r->rc = _strstr_s_chk(DP(c), SZ(c->dmax, STRMAX), SP(c), SZ(c->slen, STRMAX), op, B(c->dbos, 1), B(c->sbos, 1)); FINP; }
T(strcasestr_s) { OUTP; r->rc = _strcasestr_s_chk(DP(c), SZ(c->dmax, STRMAX), SP(c), SZ(c->slen, STRMAX), op, B(c->dbos, 1), B(c->sbos, 1)); FINP; }
T(strpbrk_s) { OUTP; r->rc = _strpbrk_s_chk(DP(c), SZ(c->dmax, STRMAX), SP(c), SZ(c->slen, STRMAX), op, B(c->dbos, 1), B(c->sbos, 1)); FINP; }
T(strchr_s) { OUTP; r->rc = _strchr_s_chk(DP(c), SZ(c->dmax, STRMAX), c->c, op, B(c->dbos, 1)); FINP; }
T(strrchr_s) { OUTP; r->rc = _strrchr_s_chk(DP(c), SZ(c->dmax, STRMAX), c->c, op, B(c->dbos, 1)); FINP; }
T(strfirstchar_s) { OUTP; r->rc = _strfirstchar_s_chk(DP(c), SZ(c->dmax, STRMAX), (char)c->c, op, B(c->dbos, 1)); FINP; }
T(strlastchar_s) { OUTP; r->rc = _strlastchar_s_chk(DP(c), SZ(c->dmax, STRMAX), (char)c->c, op, B(c->dbos, 1)); FINP; }
T(strspn_s) { OUTZ; r->rc = _strspn_s_chk(DP(c), SZ(c->dmax, STRMAX), SP(c), SZ(c->slen, STRMAX), op, B(c->dbos, 1), B(c->sbos, 1)); FINI; }
T(strcspn_s) { OUTZ; r->rc = _strcspn_s_chk(DP(c), SZ(c->dmax, STRMAX), SP(c), SZ(c->slen, STRMAX), op, B(c->dbos, 1), B(c->sbos, 1)); FINI; }
T(strfirstdiff_s) { OUTZ; r->rc = _strfirstdiff_s_chk(DP(c), SZ(c->dmax, STRMAX), SP(c), op, B(c->dbos, 1)); FINI; }
T(strfirstsame_s) { OUTZ; r->rc = _strfirstsame_s_chk(DP(c), SZ(c->dmax, STRMAX), SP(c), op, B(c->dbos, 1)); FINI; }
T(strlastdiff_s) { OUTZ; r->rc = _strlastdiff_s_chk(DP(c), SZ(c->dmax, STRMAX), SP(c), op, B(c->dbos, 1)); FINI; }
T(strlastsame_s) { OUTZ; r->rc = _strlastsame_s_chk(DP(c), SZ(c->dmax, STRMAX), SP(c), op, B(c->dbos, 1)); FINI; }
T(strprefix_s) { r->rc = _strprefix_s_chk(DP(c), SZ(c->dmax, STRMAX), SP(c), B(c->dbos, 1)); }
#define BOOLT(name) T(name) { r->rc = -7777; r->o1 = (long)_##name##_chk(DP(c), SZ(c->dmax, STRMAX), B(c->dbos, 1)); r->has_o1 = 1; }
BOOLT(strisalphanumeric_s) BOOLT(strisascii_s) BOOLT(strisdigit_s) BOOLT(strishex_s)
BOOLT(strislowercase_s) BOOLT(strismixedcase_s) BOOLT(strispassword_s) BOOLT(strisuppercase_s)
#define OUTV void *o = (void *)h_untouched; void **op = (c->flags & 1) ? NULL : &o
T(memchr_s) { OUTV; r->rc = _memchr_s_chk(DP(c), MB(c->dmax, 1), c->c, op, B(c->dbos, 1)); FINP; }
T(memrchr_s) { OUTV; r->rc = _memrchr_s_chk(DP(c), MB(c->dmax, 1), c->c, op, B(c->dbos, 1)); FINP; }
T(memcmp_s) { OUTI; r->rc = _memcmp_s_chk(DP(c), MB(c->dmax, 1), SP(c), MN(c->slen, 1), op, B(c->dbos, 1), B(c->sbos, 1)); FINI; }
T(memcmp16_s) { OUTI; r->rc = _memcmp16_s_chk(DP(c), MN(c->dmax, 2), SP(c), MN(c->slen, 2), op, B(c->dbos, 2), B(c->sbos, 2)); FINI; }
T(memcmp32_s) { OUTI; r->rc = _memcmp32_s_chk(DP(c), MN(c->dmax, 4), SP(c), MN(c->slen, 4), op, B(c->dbos, 4), B(c->sbos, 4)); FINI; }
T(wmemcmp_s) { OUTI; r->rc = _wmemcmp_s_chk(DP(c), MN(c->dmax, 4), SP(c), MN(c->slen, 4), op, B(c->dbos, 4), B(c->sbos, 4)); FINI; }
T(wcscmp_s) { OUTI; r->rc = _wcscmp_s_chk(DP(c), SZ(c->dmax, WSTRMAX), SP(c), SZ(c->slen, WSTRMAX), op, B(c->dbos, 4), B(c->sbos, 4)); FINI; }
T(wcsicmp_s) { OUTI; r->rc = _wcsicmp_s_chk(DP(c), SZ(c->dmax, WSTRMAX), SP(c), SZ(c->slen, WSTRMAX), op, B(c->dbos, 4), B(c->sbos, 4)); FINI; }
T(wcsnatcmp_s) { OUTI; r->rc = _wcsnatcmp_s_chk(DP(c), SZ(c->dmax, WSTRMAX), SP(c), SZ(c->slen, WSTRMAX), 0, op, B(c->dbos, 4), B(c->sbos, 4)); FINI; }
T(wcsnaticmp_s) { OUTI; r->rc = _wcsnatcmp_s_chk(DP(c), SZ(c->dmax, WSTRMAX), SP(c), SZ(c->slen, WSTRMAX), 1, op, B(c->dbos, 4), B(c->sbos, 4)); FINI; }
T(wcscoll_s) { OUTI; r->rc = _wcscoll_s_chk(DP(c), SZ(c->dmax, WSTRMAX), SP(c), SZ(c->slen, WSTRMAX), op, B(c->dbos, 4), B(c->sbos, 4)); FINI; }
T(wcsncmp_s) { OUTI; r->rc = _wcsncmp_s_chk(DP(c), SZ(c->dmax, WSTRMAX), SP(c), SZ(c->slen, WSTRMAX), SZ(c->n, WSTRMAX), op, B(c->dbos, 4), B(c->sbos, 4)); FINI; }
T(wcsstr_s) { wchar_t *o = (wchar_t *)h_untouched; wchar_t **op = (c->flags & 1) ? NULL : &o;
    r->rc = _wcsstr_s_chk(DP(c), SZ(c->dmax, WSTRMAX), SP(c), SZ(c->slen, WSTRMAX), op, B(c->dbos, 4), B(c->sbos, 4)); FINP; }
T(timingsafe_bcmp) { r->rc = -7777; r->o1 = _timingsafe_bcmp_chk(DP(c), SP(c), (size_t)c->n, B(c->dbos, 1), B(c->sbos, 1)); r->has_o1 = 1; }
T(timingsafe_memcmp) { r->rc = -7777; r->o1 = _timingsafe_memcmp_chk(DP(c), SP(c), (size_t)c->n, B(c->dbos, 1), B(c->sbos, 1)); r->has_o1 = 1; }

#define E(name) {#name, t_##name}
static const struct { const char *name; thunk_t fn; } TAB[] = {
    E(strcpy_s), E(strcat_s), E(strncpy_s), E(strncat_s), E(stpcpy_s), E(stpncpy_s),
    E(strcpyfld_s), E(strcpyfldin_s), E(strcpyfldout_s),
    E(wcscpy_s), E(wcscat_s), E(wcsncpy_s), E(wcsncat_s),
    E(memcpy_s), E(memmove_s), E(memcpy16_s), E(memmove16_s), E(memcpy32_s), E(memmove32_s),
    E(wmemcpy_s), E(wmemmove_s), E(memccpy_s),
    E(memset_s), E(memset16_s), E(memset32_s), E(memzero_s), E(memzero16_s), E(memzero32_s),
    E(strzero_s), E(strset_s), E(strnset_s), E(wcsset_s), E(wcsnset_s),
    E(strtolowercase_s), E(strtouppercase_s), E(strljustify_s), E(strremovews_s), E(strnterminate_s),
    E(wcslwr_s), E(wcsupr_s),
    E(strnlen_s), E(wcsnlen_s), E(strcmp_s), E(strcasecmp_s), E(strnatcmp_s), E(strnatcasecmp_s),
    E(strcmpfld_s), E(strcoll_s), E(strstr_s), E(strcasestr_s), E(strpbrk_s), E(strchr_s), E(strrchr_s),
    E(strfirstchar_s), E(strlastchar_s), E(strspn_s), E(strcspn_s), E(strfirstdiff_s), E(strfirstsame_s),
    E(strlastdiff_s), E(strlastsame_s), E(strprefix_s),
    E(strisalphanumeric_s), E(strisascii_s), E(strisdigit_s), E(strishex_s), E(strislowercase_s),
    E(strismixedcase_s), E(strispassword_s), E(strisuppercase_s),
    E(memchr_s), E(memrchr_s), E(memcmp_s), E(memcmp16_s), E(memcmp32_s), E(wmemcmp_s),
    E(wcscmp_s), E(wcscoll_s), E(wcsicmp_s), E(wcsnatcmp_s), E(wcsnaticmp_s), E(wcsncmp_s), E(wcsstr_s), E(timingsafe_bcmp), E(timingsafe_memcmp),
};

static thunk_t lookup(const char *n) {
    size_t i;
    for (i = 0; i < sizeof TAB / sizeof TAB[0]; i++)
        if (!strcmp(TAB[i].name, n)) return TAB[i].fn;
    return NULL;
}

/* g_hi: for the 16- and 32-bit memory comparisons the cell values 128..255 stand for elements at the top of the element range
 * (0xFF80.. / 0xFFFFFF80..): same order, but differences that do not fit the next smaller signed type */
static int g_hi;
static void put(char *p, int w, long v) {
    if (w == 1) *(unsigned char *)p = (unsigned char)v;
    else if (w == 2) { uint16_t x = (uint16_t)((g_hi && v >= 128 && v <= 255) ? 0xFF00 + v : v); memcpy(p, &x, 2); }
    else { uint32_t x = (uint32_t)((g_hi && v >= 128 && v <= 255) ? 0xFFFFFF00UL + v : v); memcpy(p, &x, 4); }
}
static long get(const char *p, int w) {
    if (w == 1) return *(const unsigned char *)p;
    if (w == 2) { uint16_t x; memcpy(&x, p, 2); return (g_hi && x >= 0xFF80) ? x - 0xFF00 : x; }
    { uint32_t x; memcpy(&x, p, 4); return (g_hi && x >= 0xFFFFFF80UL) ? (long)(x - 0xFFFFFF00UL) : (long)x; }
}

static int read_case(FILE *in, case_t *c) {
    int i;
    if (fscanf(in, "%ld %39s %d %d %ld %d %ld %d %ld %ld %ld %d %d %d", &c->id, c->fn, &c->w, &c->d, &c->dmax, &c->s,
               &c->slen, &c->c, &c->n, &c->dbos, &c->sbos, &c->flags, &c->place, &c->na) != 14)
        return 0;
    if (c->na < 0 || c->na > 512) { fprintf(stderr, "bad na\n"); exit(2); }
    for (i = 0; i < c->na; i++)
        if (fscanf(in, "%ld", &c->v[i]) != 1) { fprintf(stderr, "short case\n"); exit(2); }
    return 1;
}

int main(int argc, char **argv) {
    case_t c;
    FILE *in = stdin, *out = stdout;
    long skip = argc > 1 ? atol(argv[1]) : 0;   /* number of leading cases to skip (restart after a crash) */
    long seen = 0;
    setlocale(LC_ALL, "C");
    h_install_signals();
    h_install_handlers();
    R = h_region(4);
    NOZ = h_nozone();
    shadow = malloc(R.rwlen);
    while (read_case(in, &c)) {
        res_t r;
        thunk_t fn;
        long nbytes, i;
        int fk = 0;
        long foff = 0;
        int frame_ok = 1, fault_noz = 0;
        long frame_off = 0;
        if (seen++ < skip) continue;
        fn = lookup(c.fn);
        if (!fn) { fprintf(stderr, "unknown fn %s\n", c.fn); exit(2); }
        AW = c.w;
        nbytes = (long)c.na * c.w;
        arena = c.place ? R.rw : R.rw + R.rwlen - nbytes;
        memset(R.rw, 0x5C, R.rwlen);
        g_hi = c.w > 1 && !strncmp(c.fn, "memcmp", 6);
        for (i = 0; i < c.na; i++) put(arena + i * c.w, c.w, c.v[i]);
        memcpy(shadow, R.rw, R.rwlen);
        memset(&r, 0, sizeof r);
        r.rc = -9999;
        h_n = 0;
        h_fault_kind = 0;
        errno = H_ERRNO_PRE(c.id);
        /* progress marker so that a hard crash can be attributed by the driver */
        fprintf(out, "#%ld\n", c.id);
        fflush(out);
        if (!sigsetjmp(h_jb, 1)) {
            h_armed = 1;
            alarm(3);
            fn(&c, &r);
            alarm(0);
            h_armed = 0;
        } else {
            alarm(0);
            fk = h_fault_kind;
            if (fk == 1 || fk == 2) {
                foff = (h_fault_addr - arena) / c.w + 1; /* 1-based element index of faulting address */
                if (h_fault_addr >= NOZ - 16 * PG && h_fault_addr < NOZ + 48 * PG) fault_noz = 1;
            }
            /* re-arm handlers in case the library replaced them */
        }
        /* frame: every rw byte outside the arena unchanged */
        {
            long a0 = arena - R.rw;
            for (i = 0; i < R.rwlen; i++) {
                if (i >= a0 && i < a0 + nbytes) continue;
                if ((unsigned char)R.rw[i] != shadow[i]) { frame_ok = 0; frame_off = (i - a0 >= 0 ? (i - a0) / c.w : -((a0 - i + c.w - 1) / c.w)) + 1; break; }
            }
        }
        fprintf(out, "{\"id\":%ld,\"fn\":\"%s\",\"w\":%d,\"d\":%d,\"dmax\":%ld,\"s\":%d,\"slen\":%ld,\"c\":%d,\"n\":%ld,\"dbos\":%ld,\"sbos\":%ld,\"flags\":%d,\"place\":%d,\"pre\":[",
                c.id, c.fn, c.w, c.d, c.dmax, c.s, c.slen, c.c, c.n, c.dbos, c.sbos, c.flags, c.place);
        for (i = 0; i < c.na; i++) fprintf(out, "%s%ld", i ? "," : "", c.v[i]);
        fprintf(out, "],\"post\":[");
        for (i = 0; i < c.na; i++) fprintf(out, "%s%ld", i ? "," : "", get(arena + i * c.w, c.w));
        fprintf(out, "],\"rc\":%ld,", r.rc);
        h_print_handlers(out);
        fprintf(out, ",\"ret\":%ld,\"o1\":%ld,\"fault\":\"%s\",\"foff\":%ld,\"fnoz\":%s,\"frame_ok\":%s,\"frame_off\":%ld}\n",
                r.has_ret ? r.ret : -1, r.has_o1 ? r.o1 : -1, h_fault_name(fk), foff, fault_noz ? "true" : "false",
                frame_ok ? "true" : "false", frame_off);
        fflush(out);
    }
    return 0;
}
