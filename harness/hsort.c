/* hsort: executor/recorder for qsort_s / bsearch_s (C16).
 * stdin : id fn(q|b) place nmemb size key  k1..kn     (element i: byte 0 = key, byte 1 = original index (size >= 2), rest = filler)
 * The array sits flush against a guard page.  The comparator records how often it was called with a pointer that is
 * not an element of the array (out of range or misaligned) or with a wrong context pointer; it never judges. */
#include "hcommon.h"
static char *abase;
static long asize, anmemb;
static long cmp_calls, cmp_bad_ptr, cmp_bad_ctx;
static int ctxobj;
static const unsigned char *bkey;
static int in_array(const void *p) {
    long off = (const char *)p - abase;
    return off >= 0 && off < anmemb * asize && off % asize == 0;
}
static int cmp(const void *a, const void *b, void *ctx) {
    cmp_calls++;
    if (!in_array(a) || !in_array(b)) { cmp_bad_ptr++; return 0; }
    if (ctx != &ctxobj) cmp_bad_ctx++;
    return (int)*(const unsigned char *)a - (int)*(const unsigned char *)b;
}
static int bcmp_(const void *k, const void *y, void *ctx) {
    cmp_calls++;
    if (k != (const void *)bkey || !in_array(y)) { cmp_bad_ptr++; return 0; }
    if (ctx != &ctxobj) cmp_bad_ctx++;
    return (int)*(const unsigned char *)k - (int)*(const unsigned char *)y;
}
int main(void) {
    region_t R;
    long id;
    char fn[4];
    int place;
    long nmemb, size, key;
    h_install_signals();
    h_install_handlers();
    R = h_region(1024);      /* 4 MB: nmemb * size of the largest generated array is below 1 MB */
    while (scanf("%ld %3s %d %ld %ld %ld", &id, fn, &place, &nmemb, &size, &key) == 6) {
        static long keys[4096];
        long i, nb = nmemb * size, rc = -9999, ret = -1;
        int fk = 0;
        long foff = 0;
        unsigned char kb[512];
        for (i = 0; i < nmemb; i++) scanf("%ld", &keys[i]);
        memset(R.rw, 0x5C, R.rwlen);
        abase = place ? R.rw : R.rw + R.rwlen - nb;
        asize = size; anmemb = nmemb;
        for (i = 0; i < nmemb; i++) {
            unsigned char *e = (unsigned char *)abase + i * size;
            memset(e, 0x30 + (int)(i % 10), size);
            e[0] = (unsigned char)keys[i];
            if (size >= 2) e[1] = (unsigned char)i;
            if (size >= 3) e[2] = (unsigned char)(i >> 8);
        }
        memset(kb, 0x77, sizeof kb); kb[0] = (unsigned char)key; bkey = kb;
        cmp_calls = cmp_bad_ptr = cmp_bad_ctx = 0;
        h_n = 0; errno = H_ERRNO_PRE(id); h_fault_kind = 0;
        printf("#%ld\n", id); fflush(stdout);
        if (!sigsetjmp(h_jb, 1)) {
            h_armed = 1; alarm(10);
            if (fn[0] == 'q') rc = _qsort_s_chk(abase, (rsize_t)nmemb, (rsize_t)size, cmp, &ctxobj, H_KBOS(id, nmemb > 0, (size_t)nmemb * size));
            else { void *p = _bsearch_s_chk(kb, abase, (rsize_t)nmemb, (rsize_t)size, bcmp_, &ctxobj, H_KBOS(id, nmemb > 0, (size_t)nmemb * size)); rc = 0; ret = p ? ((char *)p - abase) / size + 1 : 0; if (p && ((char *)p - abase) % size) ret = -2; }
            alarm(0); h_armed = 0;
        } else { alarm(0); fk = h_fault_kind; if (fk == 1 || fk == 2) foff = h_fault_addr - abase; }
        {
            int frame_ok = 1, fill_ok = 1;
            long a0 = abase - R.rw, j;
            for (i = 0; i < R.rwlen; i++) { if (i >= a0 && i < a0 + nb) continue; if ((unsigned char)R.rw[i] != 0x5C) { frame_ok = 0; break; } }
            printf("{\"id\":%ld,\"fn\":\"%s\",\"nmemb\":%ld,\"size\":%ld,\"key\":%ld,\"pre\":[", id, fn[0] == 'q' ? "qsort_s" : "bsearch_s", nmemb, size, key);
            for (i = 0; i < nmemb; i++) printf("%s%ld", i ? "," : "", keys[i]);
            printf("],\"post\":[");
            for (i = 0; i < nmemb; i++) printf("%s%d", i ? "," : "", ((unsigned char *)abase)[i * size]);
            printf("],\"tags\":[");
            for (i = 0; i < nmemb; i++) {
                unsigned char *e = (unsigned char *)abase + i * size;
                int tag = size >= 3 ? (e[1] | (e[2] << 8)) : (size == 2 && nmemb <= 256) ? e[1] : -1;
                /* the filler bytes of an element travel with it: they must still belong to the tagged element */
                if (size >= 4) for (j = 3; j < size; j++) if (e[j] != 0x30 + tag % 10) fill_ok = 0;
                printf("%s%d", i ? "," : "", tag);
            }
            printf("],\"hastags\":%s,\"fill_ok\":%s,\"rc\":%ld,\"ret\":%ld,\"ncmp\":%ld,\"cmp_bad_ptr\":%ld,\"cmp_bad_ctx\":%ld,", (size >= 3 || (size == 2 && nmemb <= 256)) ? "true" : "false", fill_ok ? "true" : "false", rc, ret, cmp_calls, cmp_bad_ptr, cmp_bad_ctx);
            h_print_handlers(stdout);
            printf(",\"errno\":%d,\"frame_ok\":%s,\"fault\":\"%s\",\"foff\":%ld}\n", errno, frame_ok ? "true" : "false", h_fault_name(fk), foff);
        }
        fflush(stdout);
    }
    return 0;
}
