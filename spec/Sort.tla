-------------------------------- MODULE Sort --------------------------------
(* C16: qsort_s and bsearch_s.  The contract is stated over an array of (key, tag)
   elements: the result of qsort_s is a permutation of the original elements ordered by
   key (equal keys in any order: the algorithm is not stable), every comparison receives
   pointers to elements of the array and the caller's context; bsearch_s on a sorted
   array returns a matching element iff one exists.  TLC enumerates all key patterns of
   the bounded scope and checks the contract for consistency (NonEmpty / Sound); recorded
   executions are validated by TraceSort. *)
EXTENDS SortContract, TLC
CONSTANT MaxN
VARIABLE st
RECURSIVE Seqs(_)
Seqs(n) == IF n = 0 THEN {<<>>} ELSE {Append(s, k) : s \in Seqs(n - 1), k \in Keys}
(* a reference sort (insertion) to show the contract is satisfiable and to produce sorted inputs for bsearch *)
RECURSIVE Insert(_, _)
Insert(s, x) == IF s = <<>> THEN <<x>> ELSE IF x <= Head(s) THEN <<x>> \o s ELSE <<Head(s)>> \o Insert(Tail(s), x)
RECURSIVE RefSort(_)
RefSort(s) == IF s = <<>> THEN <<>> ELSE Insert(RefSort(Tail(s)), Head(s))

Init == st = [op |-> "init"]
Next == /\ st.op = "init"
        /\ \E n \in 0..MaxN : \E a \in Seqs(n) :
             \/ st' = [op |-> "q", arr |-> a, key |-> 0]
             \/ \E k \in Keys \cup {9} : st' = [op |-> "b", arr |-> RefSort(a), key |-> k]
Spec == Init /\ [][Next]_st
(* consistency of the contract on every enumerated case *)
Sound == st.op = "q" => /\ Sorted(RefSort(st.arr)) /\ SameMultiset(st.arr, RefSort(st.arr))
                        /\ \A p \in {RefSort(st.arr)} : QsortOK(st.arr, p, <<>>, FALSE)
BSound == st.op = "b" => Sorted(st.arr) /\ \E r \in 0..Len(st.arr) : BsearchOK(st.arr, st.key, r)
=============================================================================
