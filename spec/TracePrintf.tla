---------------------------- MODULE TracePrintf ----------------------------
(* Trace validation for the formatted I/O families.  Every recorded call of a
   printf_s / scanf_s family member is judged against the Printf contract; the
   verdict names the properties an observation violates (C09 %n, C11 text, and the
   memory/reporting properties C01-C05, C08 as far as formatted output is concerned). *)
EXTENDS Printf, Json, IOUtils
VARIABLES l, bad
T == ndJsonDeserialize(IOEnv.TRACE)

BufFns    == {"sprintf_s", "vsprintf_s", "snprintf_s", "vsnprintf_s"}
TruncFns  == {"snprintf_s", "vsnprintf_s", "snwprintf_s", "vsnwprintf_s"}
StreamFns == {"printf_s", "vprintf_s", "fprintf_s", "vfprintf_s"}
WBufFns   == {"swprintf_s", "vswprintf_s", "snwprintf_s", "vsnwprintf_s"}
WStreamFns == {"wprintf_s", "vwprintf_s", "fwprintf_s", "vfwprintf_s"}
ScanFns   == {"sscanf_s", "vsscanf_s", "fscanf_s", "vfscanf_s", "scanf_s", "vscanf_s",
              "swscanf_s", "vswscanf_s", "fwscanf_s", "vfwscanf_s", "wscanf_s", "vwscanf_s"}
Garbage(e) == IF e.wide THEN -1515870811 ELSE 165

NChanged(e) == \E i \in 1..Len(e.args) : e.args[i].t = "n" /\ e.args[i].changed
ArgViol(e) == {c \in {ESNULLP} : e.fnull \/ (e.fn \in BufFns \cup WBufFns /\ e.dnull)}
         \cup {c \in {ESZEROL} : e.fn \in BufFns \cup WBufFns /\ e.dmax = 0}
         \cup {c \in {ESLEMAX} : e.fn \in BufFns \cup WBufFns /\ e.dmax = HUGE}
DestUsable(e) == e.fn \in BufFns \cup WBufFns /\ ~e.dnull /\ e.dmax > 0
HasNul(e) == \E i \in 1..Len(e.post) : e.post[i] = 0
Cleared(e) == e.post[1] = 0       \* the documentation promises "the buffer is cleared"; judged as C04 below
AllZeroFrom(e, k) == \A i \in k..Len(e.post) : e.post[i] = 0
Untouched(e) == \A i \in 1..Len(e.post) : e.post[i] = Garbage(e)
ReportOK(e) == e.rc < 0 /\ e.hn = 1 /\ Len(e.h) = 1 /\ (e.h[1] = -e.rc \/ (e.rc = -1 /\ e.h[1] \in {EINVAL, 1}) \/ (e.h[1] = EINVAL /\ e.rc = -EINVAL))
Prefix(a, b) == Len(a) <= Len(b) /\ \A i \in 1..Len(a) : a[i] = b[i]

(* memory obligations after a failure with a usable destination *)
FailMem(e) == (IF DestUsable(e) /\ ~HasNul(e) THEN {"C03"} ELSE {})
         \cup (IF DestUsable(e) /\ ~Cleared(e) THEN {"C04"} ELSE {})
         \cup (IF DestUsable(e) /\ e.slack = 1 /\ Cleared(e) /\ ~AllZeroFrom(e, 1) THEN {"C04"} ELSE {})

LsTailUnconvertible(e) ==
  LET P == Pairs(Parse(e.fmt), e.args) IN
  \E i \in 1..Len(P) : P[i].it.cv = 115 /\ P[i].it.len = "l" /\ P[i].a.t = "S" /\ WcsBytes(P[i].a.s, e.loc, -1) = <<-1>>

Incomplete(f) == LET P == Parse(f) IN \E i \in 1..Len(P) : P[i].k = "dir" /\ P[i].cv = 0
JudgePrintf(e) ==
  LET nconv == HasNConv(e.fmt)
      isbuf == e.fn \in BufFns \cup WBufFns
      narrow == e.fn \in BufFns \cup StreamFns
  IN
  IF e.fault = "w" THEN {"C01"}
  ELSE IF e.fault = "r" THEN {"C02"}
  ELSE IF e.fault # "none" THEN {"C01", "C11"}
  ELSE IF ~e.frame_ok THEN {"C01"}
  ELSE IF NChanged(e) THEN {"C09"}
  ELSE IF ~e.fnull /\ Incomplete(e.fmt) THEN {}          \* the format ends inside a directive: what it produces is undefined, only the accesses are judged
  ELSE IF ArgViol(e) # {} THEN
       (IF e.dnull /\ e.dmax = 0 /\ e.rc >= 0 /\ e.hn = 0 THEN {}               \* documented: count only
        ELSE (IF ReportOK(e) /\ -e.rc \in ArgViol(e) THEN {} ELSE {"C05"})
               \cup (IF isbuf /\ ~e.dnull /\ e.dmax # 0 /\ ~Untouched(e) /\ e.dmax = HUGE THEN {"C05"} ELSE {}))
  ELSE IF ~e.fnull /\ nconv THEN
       (IF e.rc >= 0 THEN {"C09"} ELSE {})
         \cup (IF e.rc < 0 /\ ~ReportOK(e) THEN {"C05"} ELSE {})
         \cup (IF e.rc < 0 THEN FailMem(e) ELSE {})
  ELSE IF ~narrow THEN    \* the wide family delegates to libc: no text oracle (C11 names the narrow family); safety obligations only
       (IF e.rc >= 0 /\ DestUsable(e) /\ ~HasNul(e) THEN {"C03"} ELSE {})
         \cup (IF e.rc >= 0 /\ e.hn # 0 THEN {"C05"} ELSE {})
         \cup (IF e.rc < 0 /\ e.hn # 1 THEN {"C05"} ELSE {})
         \cup (IF e.rc < 0 THEN FailMem(e) ELSE {})
  ELSE LET x == Expected(e) IN
       IF ~x.ok THEN
          (IF e.rc >= 0 THEN {"C11", "C05"} ELSE (IF ReportOK(e) \/ (e.rc > 0) THEN {} ELSE {"C05"}) \cup FailMem(e))
       ELSE IF x.texts = {} THEN                              \* no text oracle (g G a A p): safety only
          (IF e.rc >= 0 /\ DestUsable(e) /\ ~HasNul(e) THEN {"C03"} ELSE {})
            \cup (IF e.rc >= 0 /\ e.hn # 0 THEN {"C05"} ELSE {})
            \cup (IF e.rc < 0 THEN FailMem(e) ELSE {})
       ELSE IF isbuf THEN
          LET fitting == {t \in x.texts : Len(t) < e.dmax} IN
          IF e.rc >= 0 THEN
             LET got == SubSeq(e.post, 1, Min(e.rc, Len(e.post)))
                 exact == e.rc < e.dmax /\ e.post[e.rc + 1] = 0 /\ (~narrow \/ got \in x.texts)
                 trunc == e.fn \in TruncFns /\ e.rc >= e.dmax /\ e.post[e.dmax] = 0
                            /\ (~narrow \/ \E t \in x.texts : Len(t) = e.rc /\ SubSeq(e.post, 1, e.dmax - 1) = SubSeq(t, 1, e.dmax - 1))
             IN (IF exact \/ trunc THEN {} ELSE {"C11"})
                  \cup (IF ~HasNul(e) THEN {"C03"} ELSE {})
                  \cup (IF e.hn # 0 THEN {"C05"} ELSE {})
                  \cup (IF exact /\ e.slack = 1 /\ narrow /\ ~AllZeroFrom(e, e.rc + 1) THEN {"C08"} ELSE {})
          ELSE (IF LsTailUnconvertible(e) /\ ReportOK(e) /\ e.rc = -EILSEQ THEN {}   \* an unconvertible character behind the precision cut may be reported
                ELSE IF narrow /\ fitting = x.texts THEN {"C11", "C05"}      \* the text fits and every argument is valid: must not fail
                ELSE IF narrow /\ (~ReportOK(e) \/ e.rc # -ESNOSPC) THEN {"C05"} ELSE {})
                 \cup FailMem(e)
       ELSE \* stream / stdout
          IF e.rc >= 0 THEN (IF ~narrow \/ (e.out \in x.texts /\ e.rc = Len(e.out)) THEN {} ELSE {"C11"})
                              \cup (IF e.hn # 0 THEN {"C05"} ELSE {})
          ELSE (IF LsTailUnconvertible(e) /\ ReportOK(e) /\ e.rc = -EILSEQ THEN {} ELSE IF narrow THEN {"C11", "C05"} ELSE {})

JudgeScanf(e) ==
  IF e.fault = "w" THEN {"C01"} ELSE IF e.fault = "r" THEN {"C02"} ELSE IF e.fault # "none" THEN {"C01", "C09"}
  ELSE IF NChanged(e) THEN {"C09"}
  ELSE IF e.fnull THEN {}
  ELSE IF ScanHasNConv(e.fmt) THEN (IF e.rc >= 0 \/ e.hn # 1 THEN {"C09"} ELSE {})
  ELSE IF ScanHasSuppressedN(e.fmt) THEN {}                           \* "%*n" stores nothing: accepting or rejecting it is admitted
  ELSE (IF e.hn # 0 /\ e.h[1] = EINVAL THEN {"C09"} ELSE {})          \* a literal n is not an n conversion

(* ---- named deviations: known limitations of the embedded floating-point formatter, identified by
        the class of directive and argument; they excuse a C11 mismatch only ---- *)
DevClass(e) ==
  LET P == Pairs(Parse(e.fmt), e.args)
      some(cond(_)) == \E i \in 1..Len(P) : cond(P[i])
      isdbl(q) == q.a.t = "d" /\ q.a.x.cls = "fin"
      large(q) == q.it.cv \in {102, 70} /\ q.a.t \in {"d"} /\ q.a.x.cls = "fin" /\ q.a.x.e10 >= 9
      denorm(q) == q.it.cv \in {101, 69, 103, 71} /\ isdbl(q) /\ q.a.x.e10 < -307
      prec9(q) == q.it.cv \in {102, 70, 101, 69} /\ q.a.t = "d" /\ q.p > 9
      lbig(q) == q.it.cv \in FloatConvs /\ q.a.t = "L" /\ q.a.x.cls = "fin" /\ (q.a.x.e10 > 40 \/ q.p > 40 \/ q.w > 62)
      ipad(q) == q.it.cv \in IntConvs /\ (q.p > 31 \/ (48 \in q.it.fl /\ q.w > 31))
  IN IF some(large) THEN "Dev_pf_float_large_fixed"
     ELSE IF some(denorm) THEN "Dev_pf_float_denormal_exp"
     ELSE IF some(prec9) THEN "Dev_pf_float_prec_gt9"
     ELSE IF some(lbig) THEN "Dev_pf_ldbl_64byte_buffer"
     ELSE IF some(ipad) THEN "Dev_pf_int_pad_gt31"
     ELSE ""

Verdict(e) == IF e.fn \in ScanFns THEN JudgeScanf(e) ELSE JudgePrintf(e)
DevOf(e, v) == IF e.fn \notin ScanFns /\ v \subseteq {"C11", "C05"} /\ "C11" \in v /\ ~e.fnull THEN DevClass(e) ELSE ""

Init == l = 1 /\ bad = <<>>
Next == /\ l <= Len(T) /\ l' = l + 1
        /\ LET v == Verdict(T[l]) IN bad' = IF v = {} THEN bad ELSE Append(bad, [i |-> T[l].id, props |-> v, dev |-> DevOf(T[l], v)])
Spec == Init /\ [][Next]_<<l, bad>>
Report == (l = Len(T) + 1) => PrintT(<<"RESULT", ToJson([n |-> Len(T), bad |-> bad])>>)
=============================================================================
