------------------------------ MODULE Handlers ------------------------------
(* C13: constraint-handler registration as a per-thread override of a process-wide
   handler.  The dispatch is written operationally, the way the library does it (a
   thread-local slot, then the global slot, then the default); the property is written
   declaratively over a ghost history of registrations. *)
EXTENDS Naturals, Sequences, FiniteSets, TLC
CONSTANTS MaxThreads, MaxOps
Kinds == {"str", "mem"}
H == {"H1", "H2"}          \* user handlers
None == "none"             \* never registered (NULL static)
Dflt == "ignore"           \* the default handler (ignore_handler_s)
Tid == 1..MaxThreads

VARIABLES gh,        \* [Kinds -> H \cup {None, Dflt}]   process-wide slot
          th,        \* [Tid -> [Kinds -> H \cup {None, Dflt}]] thread-local slots
          alive,     \* set of live threads
          hist,      \* ghost: history of registration / spawn events
          code,      \* ghost: the same history, encoded as integers for replay into the real code
          last       \* last observable
vars == <<gh, th, alive, hist, code, last>>

Init == /\ gh = [k \in Kinds |-> None]
        /\ th = [t \in Tid |-> [k \in Kinds |-> None]]
        /\ alive = {1}
        /\ hist = <<>>
        /\ code = <<>>
        /\ last = [op |-> "init"]

Norm(h) == IF h = "NULL" THEN Dflt ELSE h
KNum(k) == IF k = "str" THEN 0 ELSE 1
HNum(h) == CASE h = "NULL" -> 0 [] h = "H1" -> 1 [] h = "H2" -> 2
Enc(op, t, k, h) == op * 1000 + t * 100 + k * 10 + h

SetGlobal(t, k, h) ==
  /\ t \in alive /\ Len(hist) < MaxOps
  /\ gh' = [gh EXCEPT ![k] = Norm(h)]
  /\ hist' = Append(hist, [op |-> "setg", t |-> t, k |-> k, h |-> Norm(h)])
  /\ code' = Append(code, Enc(0, t, KNum(k), HNum(h)))
  /\ last' = [op |-> "setg", t |-> t, k |-> k, h |-> h, prev |-> gh[k]]
  /\ UNCHANGED <<th, alive>>

SetThread(t, k, h) ==
  /\ t \in alive /\ Len(hist) < MaxOps
  /\ th' = [th EXCEPT ![t][k] = Norm(h)]
  /\ hist' = Append(hist, [op |-> "sett", t |-> t, k |-> k, h |-> Norm(h)])
  /\ code' = Append(code, Enc(1, t, KNum(k), HNum(h)))
  /\ last' = [op |-> "sett", t |-> t, k |-> k, h |-> h, prev |-> th[t][k]]
  /\ UNCHANGED <<gh, alive>>

(* thread creation: the new thread's slots are either fresh or copies of the creator's
   (the documentation leaves inheritance open) *)
Spawn(t, c, inherit) ==
  /\ t \in alive /\ c \notin alive /\ c = 1 + Cardinality(alive) /\ Len(hist) < MaxOps
  /\ alive' = alive \cup {c}
  /\ th' = IF inherit THEN [th EXCEPT ![c] = th[t]] ELSE th
  /\ hist' = Append(hist, [op |-> "spawn", t |-> t, c |-> c, k |-> "str", h |-> None, inh |-> inherit])
  /\ code' = Append(code, Enc(2, t, 0, 0))
  /\ last' = [op |-> "spawn", t |-> t, c |-> c]
  /\ UNCHANGED gh

Dispatch(t, k) == IF th[t][k] # None THEN th[t][k] ELSE IF gh[k] # None THEN gh[k] ELSE Dflt

Violate(t, k) ==
  /\ t \in alive /\ last.op # "viol"
  /\ last' = [op |-> "viol", t |-> t, k |-> k, invoked |-> Dispatch(t, k)]
  /\ UNCHANGED <<gh, th, alive, hist, code>>

Next == \E t \in Tid, k \in Kinds :
          \/ \E h \in H \cup {"NULL"} : SetGlobal(t, k, h) \/ SetThread(t, k, h)
          \/ \E c \in Tid, inh \in BOOLEAN : Spawn(t, c, inh)
          \/ Violate(t, k)
Spec == Init /\ [][Next]_vars

(* ---- the property, declaratively over the history ---- *)
LastIdx(S) == CHOOSE i \in S : \A j \in S : j <= i
OwnRegs(t, k)  == {i \in 1..Len(hist) : hist[i].op = "sett" /\ hist[i].t = t /\ hist[i].k = k}
GlobRegs(k)    == {i \in 1..Len(hist) : hist[i].op = "setg" /\ hist[i].k = k}
BornAt(t)      == IF t = 1 THEN 0 ELSE LET S == {i \in 1..Len(hist) : hist[i].op = "spawn" /\ hist[i].c = t} IN IF S = {} THEN 0 ELSE LastIdx(S)
(* registrations a child may have inherited: thread-local registrations of its creator
   (transitively) made before the child was created, if that spawn inherited *)
RECURSIVE Inherited(_, _)
Inherited(t, k) ==
  IF t = 1 \/ BornAt(t) = 0 THEN {}
  ELSE LET b == BornAt(t)  p == hist[b].t
       IN IF ~hist[b].inh THEN {}
          ELSE LET own == {i \in OwnRegs(p, k) : i < b}
               IN IF own # {} THEN {LastIdx(own)} ELSE {i \in Inherited(p, k) : i < b}
Expected(t, k) == IF OwnRegs(t, k) # {} THEN hist[LastIdx(OwnRegs(t, k))].h
                  ELSE IF Inherited(t, k) # {} THEN hist[LastIdx(Inherited(t, k))].h
                  ELSE IF GlobRegs(k) # {} THEN hist[LastIdx(GlobRegs(k))].h
                  ELSE Dflt
C13_Dispatch == last.op = "viol" => last.invoked = Expected(last.t, last.k)
C13_Prev == /\ last.op = "setg" => LET R == GlobRegs(last.k) \ {Len(hist)} IN
                                     last.prev = IF R = {} THEN None ELSE hist[LastIdx(R)].h
            /\ last.op = "sett" => LET R == OwnRegs(last.t, last.k) \ {Len(hist)}
                                       I == Inherited(last.t, last.k)
                                   IN last.prev = IF R # {} THEN hist[LastIdx(R)].h ELSE IF I # {} THEN hist[LastIdx(I)].h ELSE None
(* a thread-local registration made by u is never used for a thread that existed before it
   was made, nor for a thread created by some other thread *)
C13_NoForeign == last.op = "viol" /\ OwnRegs(last.t, last.k) = {} =>
                   \/ last.invoked \in {Dflt} \cup {hist[i].h : i \in GlobRegs(last.k)}
                   \/ \E i \in 1..Len(hist) : /\ hist[i].op = "sett" /\ hist[i].k = last.k /\ hist[i].h = last.invoked
                                              /\ i < BornAt(last.t)                 \* made before the thread existed
                                              /\ i \in Inherited(last.t, last.k)    \* by (an ancestor that is) its creator
C13_KindsIndependent ==
  last.op = "viol" => \A i \in 1..Len(hist) : (hist[i].op \in {"setg", "sett"} /\ hist[i].k # last.k) =>
                         TRUE   \* (structural: Dispatch reads only slot k; checked through Expected, which ignores the other kind)
Complete == Len(hist) = MaxOps
=============================================================================
