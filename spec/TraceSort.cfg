SPECIFICATION TSpec
CONSTANTS Keys = {0, 1, 2}
INVARIANT Report
CHECK_DEADLOCK FALSE
