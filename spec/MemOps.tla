------------------------------- MODULE MemOps -------------------------------
(* Contracts of the memory family: memcpy/memmove in 8/16/32-bit and wide
   widths, memccpy_s, and the fill family memset/memzero (8/16/32), strzero_s,
   strset_s, strnset_s, wcsset_s, wcsnset_s.  All sizes are in elements of the
   arena width; the executor converts to the byte counts the API wants. *)
EXTENDS Base

MemCpyFns  == {"memcpy_s", "memcpy16_s", "memcpy32_s", "wmemcpy_s"}
MemMoveFns == {"memmove_s", "memmove16_s", "memmove32_s", "wmemmove_s"}
MemSetFns  == {"memset_s", "memset16_s", "memset32_s"}
MemZeroFns == {"memzero_s", "memzero16_s", "memzero32_s"}
StrFillFns == {"strzero_s", "strset_s", "strnset_s", "wcsset_s", "wcsnset_s"}
MemOpsFns  == MemCpyFns \cup MemMoveFns \cup MemSetFns \cup MemZeroFns \cup StrFillFns \cup {"memccpy_s"}

(* the memory functions clear all dmax elements on error in both builds *)
MemCleared(e) ==
  LET ext == IF e.dbos # UNK /\ e.dbos > e.dmax THEN e.dbos ELSE e.dmax
  IN Tmpl(e.pre, [i \in Rng(e.d, ext) |-> IF i >= e.d + e.dmax THEN OZ({}) ELSE Ex(0, {"C04"})])
MemClearedOrNot(e) ==   \* constraint on the source object: dest is cleared or left alone
  LET ext == IF e.dbos # UNK /\ e.dbos > e.dmax THEN e.dbos ELSE e.dmax
  IN Tmpl(e.pre, [i \in Rng(e.d, ext) |-> OZ({"C04"})])

MoveOkMem(e) ==
  Tmpl(e.pre, [i \in Rng(e.d, e.dmax) |->
     IF i < e.d + e.slen THEN Ex(e.pre[e.s + (i - e.d)], IF e.fn \in MemMoveFns THEN {"C06", "C07"} ELSE {"C06"})
     ELSE Same({"C06", "C01"})])

MemCopyOutcomes1(e) ==
  LET a == e.pre  d == e.d  s == e.s  dmax == e.dmax  slen == e.slen
  IN IF slen = 0 THEN {OkOut(Untouched(a))}                    \* documented: slen = 0 is a no-op, checked first
     ELSE IF DestViol(e) # {} THEN Errs(DestViol(e), Untouched(a))
     ELSE IF s = NULLP THEN Errs({ESNULLP}, MemCleared(e))
     ELSE IF slen = HUGE THEN Errs({ESLEMAX}, MemCleared(e))
     ELSE IF slen > dmax THEN Errs({ESNOSPC}, MemCleared(e))
     ELSE IF e.sbos # UNK /\ slen > e.sbos THEN Errs({EOVERFLOW, ESLEMAX}, MemCleared(e))
     ELSE IF e.fn \in MemMoveFns \/ d = s THEN {OkOut(MoveOkMem(e))}
     ELSE LET W == Rng(d, slen)  R == Rng(s, slen)
              must == W \cap R # {}
              disj == Rng(d, dmax) \cap R = {}
              ovl == Errs({ESOVRLP}, MemCleared(e))
          \* the documentation of the memcpy family defines the destination region as the dmax elements ("ESOVRLP when src memory
          \* overlaps dst", zeros are stored in the first dmax bytes): a source inside it is a violation even behind the bytes written
          IN IF must \/ ~disj THEN ovl ELSE {OkOut(MoveOkMem(e))}

(* the 16/32-bit variants take a known, larger object size as the destination size
   ("dmax = destbos"); both readings are admitted *)
MemCopyOutcomes(e) ==
  IF e.fn \in {"memcpy16_s", "memcpy32_s", "memmove16_s", "memmove32_s"} /\ e.dbos # UNK /\ e.dmax # HUGE /\ e.dbos > e.dmax /\ e.dmax > 0
  THEN MemCopyOutcomes1(e) \cup MemCopyOutcomes1([e EXCEPT !.dmax = e.dbos])
  ELSE MemCopyOutcomes1(e)

(* memset: "fills dmax elements, then reports" is documented behaviour *)
ValMax(e) == IF e.fn \in {"memset_s", "strset_s", "strnset_s"} THEN 255
             ELSE IF e.fn = "memset16_s" THEN 65535 ELSE IF e.fn \in {"wcsset_s", "wcsnset_s"} THEN 1114111 ELSE 2147483647
FillMem(e, cnt, v, tag) == Tmpl(e.pre, [i \in Rng(e.d, cnt) |-> Ex(v, tag)])

MemSetOutcomes(e) ==
  LET a == e.pre  d == e.d  dmax == e.dmax  n == e.n
      ext == IF e.dbos # UNK /\ e.dbos >= dmax THEN e.dbos ELSE dmax     \* with a known object size the library fills the object
  IN IF d = NULLP THEN Errs({ESNULLP}, Untouched(a))
     ELSE IF n = 0 THEN {OkOut(Untouched(a))}
     ELSE IF dmax = HUGE THEN Errs({ESLEMAX}, Untouched(a))
     ELSE IF e.dbos # UNK /\ dmax > e.dbos THEN Errs({EOVERFLOW}, Untouched(a))
     ELSE IF e.c > ValMax(e) \/ e.c < 0 THEN Errs({ESLEMAX}, Untouched(a))
     ELSE IF n = HUGE THEN {ErrOut(ESLEMAX, Tmpl(a, [i \in Rng(d, ext) |-> IF i < d + dmax THEN Ex(e.c, {"C06"}) ELSE Cell("oz", 0, {})])),
                            ErrOut(ESLEMAX, FillMem(e, ext, e.c, {"C06"}))}
     ELSE IF n > ext THEN {ErrOut(c, FillMem(e, ext, e.c, {"C06"})) : c \in {ESNOSPC} \cup (IF dmax = 0 THEN {ESZEROL} ELSE {})}
     ELSE IF n > dmax THEN {ErrOut(ESNOSPC, FillMem(e, dmax, e.c, {"C06"})), OkOut(FillMem(e, n, e.c, {"C06"}))}
     ELSE {OkOut(FillMem(e, n, e.c, {"C06", "C18"}))}

MemZeroOutcomes(e) ==
  IF DestViol(e) # {} THEN Errs(DestViol(e), Untouched(e.pre))
  ELSE {OkOut(FillMem(e, e.dmax, 0, {"C06", "C18"}))}

(* strzero_s / strset_s / strnset_s / wcsset_s / wcsnset_s: in-place fill of an existing string *)
StrFillOutcomes(e) ==
  LET a == e.pre  d == e.d  dmax == e.dmax
      isN == e.fn \in {"strnset_s", "wcsnset_s"}
      v == IF e.fn = "strzero_s" THEN 0 ELSE e.c
      valViol == {x \in {ESLEMAX} : e.fn # "strzero_s" /\ (e.c > ValMax(e) \/ e.c < 0)}
  IN IF DestViol(e) # {} THEN Errs(DestViol(e) \cup valViol, DestViolMem(e))      \* which violation is met first is not fixed
     ELSE IF valViol # {} THEN Errs({ESLEMAX}, Untouched(a))
     ELSE IF isN /\ e.n = HUGE THEN Errs({ESLEMAX, ESNOSPC}, Tmpl(a, [i \in Rng(d, dmax) |-> OZ({"C04"})]))
     ELSE IF isN /\ e.n > dmax THEN Errs({ESNOSPC}, Tmpl(a, [i \in Rng(d, dmax) |-> OZ({"C04"})]))
     ELSE LET len == ScanLen(a, d, dmax)
              cnt == IF isN THEN Min(e.n, len) ELSE len
          IN {OkOut(Tmpl(a, [i \in Rng(d, dmax) |->
                 IF i < d + cnt THEN Ex(v, {"C06"})
                 ELSE IF i < d + len THEN Same({"C06"})
                 ELSE IF i = d + len THEN Same({"C03"})
                 ELSE IF e.slack = 1 /\ cnt = len THEN Ex(0, {"C08"}) ELSE Cell("oz", 0, {"C06"})]))}

(* memccpy_s: copy through the first occurrence of c (inclusive) or n bytes *)
MemccpyOutcomes(e) ==
  LET a == e.pre  d == e.d  s == e.s  dmax == e.dmax  n == e.n
  IN IF DestViol(e) # {} THEN Errs(DestViol(e), Untouched(a))
     ELSE IF n = 0 THEN {OkOut(Tmpl(a, [i \in {d} |-> Ex(0, {"C06"})]))}
     ELSE IF s = NULLP THEN Errs({ESNULLP}, MemCleared(e))
     ELSE IF n = HUGE THEN Errs({ESLEMAX}, MemCleared(e))
     ELSE IF n > dmax THEN Errs({ESNOSPC}, MemCleared(e))
     ELSE LET hit == {i \in 0..(n - 1) : a[s + i] = e.c}
              found == hit # {}
              k == IF found THEN (CHOOSE i \in hit : \A j \in hit : i <= j) + 1 ELSE n   \* bytes copied
              W == Rng(d, k)  R == Rng(s, k)
              must == W \cap R # {} \/ d = s
              disj == Rng(d, dmax) \cap Rng(s, n) = {}
              ovl == Errs({ESOVRLP}, MemCleared(e))
              okm == Tmpl(a, [i \in Rng(d, dmax) |->
                        IF i < d + k THEN Ex(a[s + (i - d)], {"C06"})
                        ELSE IF i < d + n \/ (i = d + n /\ ~found) THEN Cell("oz", 0, {"C06"})   \* documented nulling of the rest
                        ELSE Same({"C06", "C01"})])
              ok == {OkOut(okm)} \cup (IF ~found /\ n = dmax THEN Errs({ESNOSPC}, ClearedMem(e, TRUE)) ELSE {})
          IN IF must THEN ovl ELSE IF disj THEN ok ELSE ok \cup ovl

MemOpsOutcomes(e) ==
  CASE e.fn \in MemCpyFns \cup MemMoveFns -> MemCopyOutcomes(e)
    [] e.fn \in MemSetFns -> MemSetOutcomes(e)
    [] e.fn \in MemZeroFns -> MemZeroOutcomes(e)
    [] e.fn \in StrFillFns -> StrFillOutcomes(e)
    [] e.fn = "memccpy_s" -> MemccpyOutcomes(e)

MemOpsDeviations(e) == {}
=============================================================================
