------------------------------ MODULE TraceTok ------------------------------
(* C14 trace validation: recorded strtok_s / wcstok_s sessions against the reference
   tokenizer of Tok.tla.  The model keeps its own position pos; the implementation's
   *ptr / *dmaxp are only required to stay inside the original extent and to shrink.
   If they drift, a later call returns a token the reference does not and is rejected. *)
EXTENDS Naturals, Sequences, FiniteSets, TLC, Json, IOUtils
ESNULLP == 400  ESZEROL == 401  ESUNTERM == 407
T == ndJsonDeserialize(IOEnv.TRACE)
VARIABLES l, buf, pos, dmax0, live, exhausted, bad
vars == <<l, buf, pos, dmax0, live, exhausted, bad>>

InSet(c, ds) == \E i \in 1..Len(ds) : ds[i] = c
NulAt(b, p, lim) == LET S == {i \in p..lim : i <= Len(b) /\ b[i] = 0} IN IF S = {} THEN 0 ELSE CHOOSE i \in S : \A j \in S : i <= j
RefStep(b, p, ds, nul) ==
  LET nd == {i \in p..nul : i = nul \/ ~InSet(b[i], ds)}
      st == CHOOSE i \in nd : \A j \in nd : i <= j
  IN IF st = nul THEN [tok |-> 0, b |-> b, pos |-> nul, hitend |-> TRUE]
     ELSE LET en == {i \in st..nul : i = nul \/ InSet(b[i], ds)}
              e  == CHOOSE i \in en : \A j \in en : i <= j
          IN IF e = nul THEN [tok |-> st, b |-> b, pos |-> nul, hitend |-> TRUE]
             ELSE [tok |-> st, b |-> [b EXCEPT ![e] = 0], pos |-> e + 1, hitend |-> FALSE]

Init == l = 1 /\ buf = <<>> /\ pos = 0 /\ dmax0 = 0 /\ live = FALSE /\ exhausted = FALSE /\ bad = <<>>
Reset(e) == /\ buf' = e.buf /\ pos' = 1 /\ dmax0' = e.dmax /\ live' = TRUE /\ exhausted' = FALSE /\ UNCHANGED bad

Bounds(e) == /\ (e.ptr = 0 \/ (e.ptr >= 1 /\ e.ptr <= dmax0 + 1 /\ e.ptr - 1 + e.dmaxp <= dmax0))
             /\ e.dmaxp <= e.din
BeyondSame(e) == \A k \in (dmax0 + 1)..Len(buf) : e.post[k] = buf[k]

(* verdict of one call: ok, reason, named deviation (known finding) if any, next model state *)
Judge(e) ==
  LET p   == pos
      nul == NulAt(buf, p, dmax0)                   \* the terminator must lie inside the declared extent
      V(ok, why, dev, b, np, lv, ex) == [ok |-> ok, why |-> why, dev |-> dev, b |-> b, pos |-> np, live |-> lv, ex |-> ex]
  IN IF e.fault = "none" /\ ~BeyondSame(e) THEN
        \* an element behind the declared extent changed: a write outside the destination (C01 as well as C14)
        V(FALSE, "write_outside_dest", "", buf, p, FALSE, FALSE)
     ELSE IF e.fault # "none" THEN
        \* known finding: the scan dereferences before it tests the remaining length (reads dest[dmax])
        IF e.fault = "r" /\ nul = 0 /\ e.foff = dmax0 + 1 /\ e.post = buf
        THEN V(FALSE, "read_at_dmax", "Dev_tok_term_at_dmax", buf, p, FALSE, FALSE)
        ELSE V(FALSE, "fault_" \o e.fault, "", buf, p, FALSE, FALSE)
     ELSE IF exhausted /\ e.ret = 0 /\ e.post = buf /\ BeyondSame(e)
             /\ (e.h = <<>> \/ (e.h = <<ESNULLP>> /\ e.pin = 0) \/ (e.h = <<ESZEROL>> /\ e.din = 0))
       THEN V(TRUE, "", "", buf, p, TRUE, TRUE)        \* after exhaustion: NULL forever (a report caused by the values the library stored is admitted)
     ELSE IF p > dmax0 /\ e.ret = 0 /\ e.post = buf /\ ((e.h = <<ESZEROL>> /\ e.din = 0) \/ e.h = <<ESUNTERM>>)
       THEN V(TRUE, "", "", buf, p, TRUE, TRUE)        \* the declared extent is used up (the library itself handed back *dmaxp = 0)
     ELSE IF nul = 0 /\ LET r == RefStep(buf, p, e.delim, dmax0 + 1) IN r.hitend
       THEN \* no terminator inside the declared extent and the scan runs off its end: error, nothing beyond dmax touched
        IF e.ret = 0 /\ e.h = <<ESUNTERM>> /\ e.errno = ESUNTERM /\ BeyondSame(e) /\ \A k \in 1..dmax0 : e.post[k] = buf[k] \/ e.post[k] = 0
        THEN V(TRUE, "", "", buf, p, FALSE, FALSE)
        ELSE IF dmax0 + 1 <= Len(buf) /\ buf[dmax0 + 1] = 0
        THEN \* known finding: a terminator exactly at dest[dmax] is accepted and the string tokenised
             LET r == RefStep(buf, p, e.delim, dmax0 + 1) IN
             IF e.ret = r.tok /\ e.post = r.b /\ e.h = <<>>
             THEN V(FALSE, "term_at_dmax", "Dev_tok_term_at_dmax", r.b, r.pos, FALSE, FALSE)
             ELSE V(FALSE, "unterminated_not_reported", "", buf, p, FALSE, FALSE)
        ELSE V(FALSE, "unterminated_not_reported", "", buf, p, FALSE, FALSE)
     ELSE IF nul = 0 THEN    \* the token ends at a delimiter inside the declared extent: an ordinary step
          LET r == RefStep(buf, p, e.delim, dmax0 + 1)
              ok == e.ret = r.tok /\ e.post = r.b /\ e.h = <<>> /\ Bounds(e)
          IN V(ok, IF e.ret # r.tok THEN "wrong_token" ELSE IF e.post # r.b THEN "wrong_buffer" ELSE IF e.h # <<>> THEN "handler" ELSE "bounds",
               "", r.b, r.pos, TRUE, FALSE)
     ELSE LET r == RefStep(buf, p, e.delim, nul)
              ok == e.ret = r.tok /\ e.post = r.b /\ e.h = <<>> /\ Bounds(e)
          IN V(ok, IF e.ret # r.tok THEN "wrong_token" ELSE IF e.post # r.b THEN "wrong_buffer" ELSE IF e.h # <<>> THEN "handler" ELSE "bounds",
               "", r.b, r.pos, TRUE, r.tok = 0 \/ exhausted)

Tok(e) == LET j == Judge(e) IN
  IF ~live THEN UNCHANGED <<buf, pos, dmax0, live, exhausted, bad>>
  ELSE /\ buf' = j.b /\ pos' = j.pos /\ UNCHANGED dmax0
       /\ live' = (j.live /\ j.ok)                  \* after a rejection the session is no longer judged (state unknown)
       /\ exhausted' = j.ex
       /\ bad' = IF j.ok THEN bad ELSE Append(bad, [i |-> e.id, why |-> j.why, dev |-> j.dev])

Next == /\ l <= Len(T) /\ l' = l + 1
        /\ IF T[l].e = "Reset" THEN Reset(T[l]) ELSE Tok(T[l])
Spec == Init /\ [][Next]_vars
Report == (l = Len(T) + 1) => PrintT(<<"RESULT", ToJson([n |-> Len(T), bad |-> bad])>>)
=============================================================================
