-------------------------------- MODULE Tok --------------------------------
(* C14: strtok_s / wcstok_s as a state machine over one tokenising session.
   Cell values: 0 NUL, 1 2 non-delimiters, 3 4 delimiters, 7 garbage behind the
   terminator.  The model keeps its own reference position; the contract of a call
   is stated against it (see TraceTok), never against how the implementation
   maintains *ptr. *)
EXTENDS Naturals, Sequences, FiniteSets, TLC
CONSTANTS L            \* maximal string length
Letters == {1, 2, 3, 4}
DelimSets == <<  <<3>>, <<4>>, <<3, 4>>, <<>>  >>       \* indexed 1..4; may change between calls
VARIABLE s
(* s = [buf0, dmax0, buf, pos, calls, rets, nulls, err] *)

RECURSIVE Strs(_)
Strs(k) == IF k = 0 THEN {<<>>} ELSE LET S == Strs(k - 1) IN S \cup {Append(x, c) : x \in {t \in S : Len(t) = k - 1}, c \in Letters}

InSet(c, ds) == \E i \in 1..Len(ds) : ds[i] = c
NulAt(b, p, lim) == LET S == {i \in p..lim : b[i] = 0} IN IF S = {} THEN 0 ELSE CHOOSE i \in S : \A j \in S : i <= j
(* reference step from position p (p <= nul): skip delimiters, then the token runs to the
   next delimiter (overwritten by NUL) or to the terminator *)
RefStep(b, p, ds, nul) ==
  LET nd == {i \in p..nul : i = nul \/ ~InSet(b[i], ds)}
      st == CHOOSE i \in nd : \A j \in nd : i <= j
  IN IF st = nul THEN [tok |-> 0, len |-> 0, b |-> b, pos |-> nul, hitend |-> TRUE]
     ELSE LET en == {i \in st..nul : i = nul \/ InSet(b[i], ds)}
              e  == CHOOSE i \in en : \A j \in en : i <= j
          IN IF e = nul THEN [tok |-> st, len |-> e - st, b |-> b, pos |-> nul, hitend |-> TRUE]
             ELSE [tok |-> st, len |-> e - st, b |-> [b EXCEPT ![e] = 0], pos |-> e + 1, hitend |-> FALSE]

Init == \E str \in Strs(L), dm \in 1..(L + 2) :       \* dmax from two below the string length (the extent cuts the string) to two above
          LET b == str \o <<0, 7, 7>>
          IN /\ dm + 2 >= Len(str) /\ dm <= Len(str) + 2
             /\ s = [buf0 |-> b, dmax0 |-> dm, buf |-> b, pos |-> 1, calls |-> <<>>, rets |-> <<>>, nulls |-> 0, err |-> FALSE]

Call(di) ==
  /\ s.nulls < 2 /\ ~s.err /\ Len(s.calls) < L + 3
  /\ LET nul == NulAt(s.buf, s.pos, s.dmax0) IN
     IF nul = 0 /\ LET r == RefStep(s.buf, s.pos, DelimSets[di], s.dmax0 + 1) IN r.hitend
     THEN s' = [s EXCEPT !.calls = Append(@, di), !.err = TRUE]     \* no terminator within dmax and the scan runs off the end: ESUNTERM
     ELSE LET r == RefStep(s.buf, s.pos, DelimSets[di], IF nul = 0 THEN s.dmax0 + 1 ELSE nul) IN
          s' = [s EXCEPT !.calls = Append(@, di), !.buf = r.b, !.pos = r.pos,
                         !.rets = IF r.tok = 0 THEN @ ELSE Append(@, <<r.tok, r.len, di>>),
                         !.nulls = IF r.tok = 0 THEN @ + 1 ELSE 0]
Next == \E di \in 1..4 : Call(di)
Spec == Init /\ [][Next]_s

(* ---- the property on the model ---- *)
(* each returned token is a maximal run free of the delimiters of its call, in order, disjoint *)
C14_Tokens ==
  \A i \in 1..Len(s.rets) :
    LET t == s.rets[i]  ds == DelimSets[t[3]] IN
    /\ \A j \in t[1]..(t[1] + t[2] - 1) : ~InSet(s.buf0[j], ds) /\ s.buf0[j] # 0
    /\ (InSet(s.buf0[t[1] + t[2]], ds) \/ s.buf0[t[1] + t[2]] = 0)      \* ends at a delimiter or the terminator
    /\ (i > 1 => s.rets[i - 1][1] + s.rets[i - 1][2] < t[1])             \* after the previous one
    /\ s.buf[t[1] + t[2]] = 0                                          \* NUL-terminated in place
(* only delimiter cells are overwritten, and only by NUL; nothing at or beyond dmax0 *)
C14_InPlace == \A j \in 1..Len(s.buf0) : s.buf[j] # s.buf0[j] => (s.buf[j] = 0 /\ s.buf0[j] \in {3, 4} /\ j <= s.dmax0)
(* with one fixed delimiter set nothing is skipped: the tokens are all the maximal runs *)
C14_Complete ==
  (s.nulls = 2 /\ ~s.err /\ \A i \in 1..Len(s.calls) : s.calls[i] = s.calls[1]) =>
     LET ds == DelimSets[s.calls[1]]
         nul0 == NulAt(s.buf0, 1, s.dmax0)
         nul == IF nul0 = 0 THEN s.dmax0 + 1 ELSE nul0
         starts == {j \in 1..(nul - 1) : ~InSet(s.buf0[j], ds) /\ (j = 1 \/ InSet(s.buf0[j - 1], ds))}
     IN {s.rets[i][1] : i \in 1..Len(s.rets)} = starts
C14_Bounds == s.pos >= 1 /\ s.pos <= s.dmax0 + 1
Done == s.nulls = 2 \/ s.err
=============================================================================
