--------------------------- MODULE TraceHandlers ---------------------------
(* C13 trace validation.  The one unlogged choice (does a child inherit its creator's
   thread-local handlers?) is handled by tracking the SET of thread-local configurations
   consistent with the observations so far (subset construction), so validation is
   deterministic and linear, every session is judged, and a rejection names the event. *)
EXTENDS Naturals, Sequences, FiniteSets, TLC, Json, IOUtils
T == ndJsonDeserialize(IOEnv.TRACE)
Tid == 1..8
K == {0, 1}
None == 0  Dflt == 3                     \* handler ids: 0 none/NULL, 1 H1, 2 H2, 3 default (ignore_handler_s)
VARIABLES l, gh, cfgs, live, bad
vars == <<l, gh, cfgs, live, bad>>
Norm(h) == IF h = 0 THEN Dflt ELSE h
IsDefault(x) == x = None \/ x = Dflt       \* "default" may be observed as NULL or as ignore_handler_s
SamePrev(obs, model) == obs = model \/ (IsDefault(obs) /\ IsDefault(model))
EmptyTh == [t \in Tid |-> [k \in K |-> None]]
Init == l = 1 /\ gh = [k \in K |-> None] /\ cfgs = {EmptyTh} /\ live = FALSE /\ bad = <<>>
Dispatch(th, g, t, k) == IF th[t][k] # None THEN th[t][k] ELSE IF g[k] # None THEN g[k] ELSE Dflt
Rej(e, why) == Append(bad, [i |-> e.id, why |-> why])
Step(e) ==
  CASE e.e = "Reset" -> /\ gh' = [k \in K |-> None] /\ cfgs' = {EmptyTh} /\ live' = TRUE /\ UNCHANGED bad
    [] e.e = "crash" -> /\ bad' = Rej(e, "crash") /\ live' = FALSE /\ UNCHANGED <<gh, cfgs>>
    [] ~live -> UNCHANGED <<gh, cfgs, live, bad>>
    [] e.e = "setg" -> LET ok == SamePrev(e.prev, gh[e.k]) IN
                       /\ gh' = [gh EXCEPT ![e.k] = Norm(e.h)] /\ UNCHANGED cfgs
                       /\ live' = ok /\ bad' = IF ok THEN bad ELSE Rej(e, "prev_global")
    [] e.e = "sett" -> LET keep == {c \in cfgs : SamePrev(e.prev, c[e.t][e.k])} IN
                       /\ cfgs' = {[c EXCEPT ![e.t][e.k] = Norm(e.h)] : c \in keep} /\ UNCHANGED gh
                       /\ live' = (keep # {}) /\ bad' = IF keep # {} THEN bad ELSE Rej(e, "prev_thread")
    [] e.e = "spawn" -> /\ cfgs' = cfgs \cup {[c EXCEPT ![e.c] = c[e.t]] : c \in cfgs}   \* fresh TLS, or inherited from the creator
                        /\ UNCHANGED <<gh, live, bad>>
    [] e.e = "viol" -> LET keep == {c \in cfgs : Dispatch(c, gh, e.t, e.k) = e.inv /\ e.cnt = 1 /\ e.codeok} IN
                       /\ cfgs' = keep /\ UNCHANGED gh
                       /\ live' = (keep # {}) /\ bad' = IF keep # {} THEN bad ELSE Rej(e, "wrong_handler")
Next == l <= Len(T) /\ l' = l + 1 /\ Step(T[l])
Spec == Init /\ [][Next]_vars
Report == (l = Len(T) + 1) => PrintT(<<"RESULT", ToJson([n |-> Len(T), bad |-> bad])>>)
=============================================================================
