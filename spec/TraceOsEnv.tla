----------------------------- MODULE TraceOsEnv -----------------------------
(* trace validation of the OsEnv functions: every recorded call is judged by OsEnv!Why *)
EXTENDS OsEnv, Json, IOUtils
VARIABLES l, bad
T == ndJsonDeserialize(IOEnv.TRACE)
TInit == l = 1 /\ bad = <<>>
TNext == /\ l <= Len(T) /\ l' = l + 1
         /\ LET w == Why(T[l]) IN bad' = IF w = "" THEN bad ELSE Append(bad, [i |-> T[l].id, why |-> w, dev |-> ""])
TSpec == TInit /\ [][TNext]_<<l, bad>>
Report == (l = Len(T) + 1) => PrintT(<<"RESULT", ToJson([n |-> Len(T), bad |-> bad])>>)
=============================================================================
