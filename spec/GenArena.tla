------------------------------ MODULE GenArena ------------------------------
(* The bounded model of "one library call on an arena": enumerates every call of the
   selected functions in the scope (N arena cells, sizes 0..K and HUGE, NULL operands,
   every placement of dest and src, terminated or not), checks that every outcome the
   contract admits satisfies the properties, and emits each call as a case for replay
   into the real code (P1). *)
EXTENDS Props, Json
CONSTANTS N, K, Fns, BosMode
VARIABLES st

G(i) == 200 + i                       \* distinguishable garbage per cell
Blank == [i \in 1..N |-> G(i)]
SrcStr(len) == [j \in 1..len |-> 96 + j]      \* "abc.."
DstStr(len) == [j \in 1..len |-> 119 + j]     \* "xyz.."
Place(a, p, str, term) == [i \in 1..Len(a) |->
    IF i >= p /\ i < p + Len(str) THEN str[i - p + 1]
    ELSE IF term /\ i = p + Len(str) THEN 0 ELSE a[i]]
Sizes == 0..K \cup {HUGE}

HasSlen(fn) == fn \in NCopyFns \cup NCatFns \cup FldFns
HasDstr(fn) == fn \in CatFns \cup NCatFns
Eff(x) == IF x = HUGE THEN 0 ELSE x

Truthful(c) ==
  LET a == c.pre IN
  /\ (c.d # NULLP /\ c.dmax # HUGE) => c.d + c.dmax - 1 <= N
  /\ (c.d # NULLP /\ c.dbos # UNK) => c.d + c.dbos - 1 <= N
  /\ (c.s # NULLP /\ c.sbos # UNK) => c.s + c.sbos - 1 <= N
  /\ c.s # NULLP =>
       LET room == IF HasDstr(c.fn) /\ c.d # NULLP THEN Eff(c.dmax) - ScanLen(a, c.d, Eff(c.dmax)) ELSE Eff(c.dmax)
           lim == IF HasSlen(c.fn) /\ c.slen # HUGE THEN Min(c.slen, room) ELSE room
       IN c.s + Min(ScanLen(a, c.s, lim) + 1, lim) - 1 <= N

Init == st \in {[fn |-> "init", f |-> fn, d |-> d] : fn \in Fns, d \in 0..N}

BosChoices(x) == IF BosMode = 0 \/ x = HUGE THEN {UNK} ELSE {UNK, x, x + 1} \cup (IF x > 0 THEN {x - 1} ELSE {})

Next ==
  /\ st.fn = "init"
  /\ \E dmax \in Sizes, s \in 0..N, sl \in 0..(K + 1), sterm \in BOOLEAN :
     \E slen \in (IF HasSlen(st.f) THEN Sizes \cup {K + 1} ELSE {0}),
        dl \in (IF HasDstr(st.f) THEN 0..2 ELSE {0}), dterm \in (IF HasDstr(st.f) THEN BOOLEAN ELSE {FALSE}),
        flags \in (IF st.f \in StpFns THEN {0, 1} ELSE {0}) :
     \E dbos \in BosChoices(dmax), sbos \in (IF HasSlen(st.f) \/ st.f \in StpFns THEN BosChoices(slen) ELSE {UNK}) :
       LET d  == st.d
           a0 == IF d # NULLP /\ (dterm \/ dl > 0) /\ d + dl <= N THEN Place(Blank, d, DstStr(dl), dterm) ELSE Blank
           a  == IF s # NULLP /\ s + sl <= N + (IF sterm THEN 0 ELSE 1) THEN Place(a0, s, SrcStr(sl), sterm) ELSE a0
           c  == [fn |-> st.f, w |-> IF SubSeq(st.f, 1, 3) = "wcs" THEN 4 ELSE 1, d |-> d, dmax |-> dmax, s |-> s, slen |-> slen,
                  c |-> 0, n |-> 0, dbos |-> dbos, sbos |-> sbos, flags |-> flags, pre |-> a, slack |-> 1]
       IN /\ (s # NULLP => s + sl <= N + (IF sterm THEN 0 ELSE 1))
          /\ (flags = 1 => dmax = 1)
          /\ Truthful(c)
          /\ st' = c
Spec == Init /\ [][Next]_st

Cases(c) == {[c EXCEPT !.slack = x] : x \in {0, 1}}
NonEmpty == st.fn # "init" => \A c \in Cases(st) : Outcomes(c) # {}
PropsHold == st.fn # "init" => \A c \in Cases(st) : \A o \in Outcomes(c) : AllProps(c, o)
Inv_C01 == st.fn # "init" => \A c \in Cases(st) : \A o \in Outcomes(c) : C01_T(c, o)
Inv_C03 == st.fn # "init" => \A c \in Cases(st) : \A o \in Outcomes(c) : C03_T(c, o)
Inv_C04 == st.fn # "init" => \A c \in Cases(st) : \A o \in Outcomes(c) : C04_T(c, o)
Inv_C05 == st.fn # "init" => \A c \in Cases(st) : \A o \in Outcomes(c) : C05_T(c, o)
Inv_C06 == st.fn # "init" => \A c \in Cases(st) : \A o \in Outcomes(c) : C06_T(c, o)
Inv_C07 == st.fn # "init" => \A c \in Cases(st) : \A o \in Outcomes(c) : C07_T(c, o)
Inv_C08 == st.fn # "init" => \A c \in Cases(st) : \A o \in Outcomes(c) : C08_T(c, o)
Emit == st.fn = "init" \/ PrintT(<<"CASE", ToJson(st)>>)
=============================================================================
