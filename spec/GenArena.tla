------------------------------ MODULE GenArena ------------------------------
(* The bounded model of "one library call on an arena": enumerates every call of the
   selected functions in the scope (N arena cells, sizes 0..K and HUGE, NULL operands,
   every placement of dest and src, terminated or not), checks that every outcome the
   contract admits satisfies the properties, and emits each call as a case for replay
   into the real code (P1). *)
EXTENDS Props, Json
CONSTANTS N, K, Fns, BosMode, QA
VARIABLES st

G(i) == 200 + i                       \* distinguishable garbage per cell
Blank == [i \in 1..N |-> G(i)]
SrcStr(len) == [j \in 1..len |-> 96 + j]      \* "abc.."
DstStr(len) == [j \in 1..len |-> 119 + j]     \* "xyz.."
Place(a, p, str, term) == [i \in 1..Len(a) |->
    IF i >= p /\ i < p + Len(str) THEN str[i - p + 1]
    ELSE IF term /\ i = p + Len(str) THEN 0 ELSE a[i]]
Sizes == 0..K \cup {HUGE}

HasSlen(fn) == fn \in NCopyFns \cup NCatFns \cup FldFns
HasDstr(fn) == fn \in CatFns \cup NCatFns
Eff(x) == IF x = HUGE THEN 0 ELSE x
Width(fn) == IF fn \in {"memcpy16_s", "memmove16_s", "memset16_s", "memzero16_s"} THEN 2
             ELSE IF fn \in {"memcpy32_s", "memmove32_s", "memset32_s", "memzero32_s", "wmemcpy_s", "wmemmove_s"} \/ SubSeq(fn, 1, 3) = "wcs" THEN 4
             ELSE 1

Truthful(c) ==
  LET a == c.pre IN
  /\ (c.d # NULLP /\ c.dmax # HUGE) => c.d + c.dmax - 1 <= N
  /\ (c.d # NULLP /\ c.dbos # UNK) => c.d + c.dbos - 1 <= N
  /\ (c.s # NULLP /\ c.sbos # UNK) => c.s + c.sbos - 1 <= N
  /\ (c.s # NULLP /\ c.fn \in StrCopyFns) =>
       LET room == IF HasDstr(c.fn) /\ c.d # NULLP THEN Eff(c.dmax) - ScanLen(a, c.d, Eff(c.dmax)) ELSE Eff(c.dmax)
           lim == IF HasSlen(c.fn) /\ c.slen # HUGE THEN Min(c.slen, room) ELSE room
       IN c.s + Min(ScanLen(a, c.s, lim) + 1, lim) - 1 <= N
  /\ (c.s # NULLP /\ c.fn \in MemCpyFns \cup MemMoveFns /\ c.slen # HUGE) => c.s + c.slen - 1 <= N
  /\ (c.s # NULLP /\ c.fn \in {"strcpyfld_s", "strcpyfldout_s"} /\ c.slen # HUGE /\ c.slen <= Eff(c.dmax)) => c.s + c.slen - 1 <= N   \* a field of slen elements
  /\ (c.s # NULLP /\ c.fn = "memccpy_s" /\ c.n # HUGE) => c.s + c.n - 1 <= N

Init == st \in {[fn |-> "init", f |-> fn, d |-> d] : fn \in Fns, d \in 0..N}

BosChoices(x) == IF BosMode = 0 \/ x = HUGE \/ x = 0 THEN {UNK} ELSE {UNK, x, x + 1} \cup (IF x > 1 THEN {x - 1} ELSE {})
Case(fn, d, dmax, s, slen, c, n, dbos, sbos, flags, a) ==
  [fn |-> fn, w |-> Width(fn), d |-> d, dmax |-> dmax, s |-> s, slen |-> slen, c |-> c, n |-> n,
   dbos |-> dbos, sbos |-> sbos, flags |-> flags, pre |-> a, slack |-> 1]

NextStrCopy ==
  /\ st.f \in StrCopyFns
  /\ \E dmax \in Sizes, s \in 0..N, sl \in 0..(K + 1), sterm \in BOOLEAN :
     \E slen \in (IF HasSlen(st.f) THEN Sizes \cup {K + 1} ELSE {0}),
        dl \in (IF HasDstr(st.f) THEN 0..2 ELSE {0}), dterm \in (IF HasDstr(st.f) THEN BOOLEAN ELSE {FALSE}),
        flags \in (IF st.f \in StpFns THEN {0, 1} ELSE {0}) :
     \E dbos \in BosChoices(dmax), sbos \in (IF st.f = "stpcpy_s" THEN BosChoices(sl + (IF sterm THEN 1 ELSE 0))      \* no slen: the size of the object that holds the string
                                             ELSE IF HasSlen(st.f) \/ st.f \in StpFns THEN BosChoices(slen) ELSE {UNK}) :
       LET d  == st.d
           a0 == IF d # NULLP /\ (dterm \/ dl > 0) /\ d + dl <= N THEN Place(Blank, d, DstStr(dl), dterm) ELSE Blank
           a  == IF s # NULLP /\ s + sl <= N + (IF sterm THEN 0 ELSE 1) THEN Place(a0, s, SrcStr(sl), sterm) ELSE a0
           c  == Case(st.f, d, dmax, s, slen, 0, 0, dbos, sbos, flags, a)
       IN /\ (s # NULLP => s + sl <= N + (IF sterm THEN 0 ELSE 1))
          /\ (flags = 1 => dmax = 1)
          /\ Truthful(c)
          /\ st' = c

NextMemCopy ==
  /\ st.f \in MemCpyFns \cup MemMoveFns
  /\ \E dmax \in Sizes, s \in 0..N, slen \in Sizes \cup {K + 1} :
     \E dbos \in BosChoices(dmax), sbos \in BosChoices(slen) :
       LET c == Case(st.f, st.d, dmax, s, slen, 0, 0, dbos, sbos, 0, Blank)
       IN Truthful(c) /\ st' = c

FillValues(fn) == {0, 65} \cup (IF fn \in {"memset_s", "strset_s", "strnset_s"} THEN {256}
                              ELSE IF fn = "memset16_s" THEN {300} ELSE IF fn \in {"wcsset_s", "wcsnset_s"} THEN {300, 1114112} ELSE {70000})
NextFill ==
  /\ st.f \in MemSetFns \cup MemZeroFns \cup StrFillFns
  /\ \E dmax \in Sizes, n \in (IF st.f \in MemSetFns \cup {"strnset_s", "wcsnset_s"} THEN Sizes \cup {K + 1} ELSE {0}),
        v \in (IF st.f \in MemZeroFns \cup {"strzero_s"} THEN {0} ELSE FillValues(st.f)),
        dl \in (IF st.f \in StrFillFns THEN 0..K ELSE {0}), dterm \in (IF st.f \in StrFillFns THEN BOOLEAN ELSE {FALSE}) :
     \E dbos \in BosChoices(dmax) :
       LET d == st.d
           a == IF d # NULLP /\ (dterm \/ dl > 0) /\ d + dl <= N + (IF dterm THEN 0 ELSE 1) THEN Place(Blank, d, DstStr(dl), dterm) ELSE Blank
           c == Case(st.f, d, dmax, 0, 0, v, n, dbos, UNK, 0, a)
       IN /\ (dl > 0 \/ dterm) => (d # NULLP /\ d + dl <= N + (IF dterm THEN 0 ELSE 1))
          /\ Truthful(c) /\ st' = c

NextMemccpy ==
  /\ st.f = "memccpy_s"
  /\ \E dmax \in Sizes, s \in 0..N, n \in Sizes \cup {K + 1}, v \in {0, 98, 203}, sl \in 0..K, sterm \in BOOLEAN :
     \E dbos \in BosChoices(dmax) :
       LET a == IF s # NULLP /\ s + sl <= N + (IF sterm THEN 0 ELSE 1) THEN Place(Blank, s, SrcStr(sl), sterm) ELSE Blank
           c == Case(st.f, st.d, dmax, s, 0, v, n, dbos, UNK, 0, a)
       IN /\ (s # NULLP => s + sl <= N + (IF sterm THEN 0 ELSE 1))
          /\ Truthful(c) /\ st' = c

XAlpha == {32, 97, 90}
RECURSIVE XStrs(_)
XStrs(k) == IF k = 0 THEN {<<>>} ELSE LET S == XStrs(k - 1) IN S \cup {Append(x, c) : x \in {t \in S : Len(t) = k - 1}, c \in XAlpha}
XformStrs == XStrs(K) \cup {<<9, 97, 9>>, <<9>>, <<65, 122, 91, 64>>}
NextXform ==
  /\ st.f \in StrXformFns
  /\ \E dmax \in Sizes \cup {K + 1}, str \in XformStrs, dterm \in BOOLEAN :
     \E dbos \in BosChoices(dmax) :
       LET d == st.d
           dl == Len(str)
           a == IF d # NULLP /\ (dterm \/ dl > 0) THEN Place(Blank, d, str, dterm) ELSE Blank
           c == Case(st.f, d, dmax, 0, 0, 0, 0, dbos, UNK, 0, a)
       IN /\ (dl > 0 \/ dterm) => (d # NULLP /\ d + dl <= N + (IF dterm THEN 0 ELSE 1))
          /\ Truthful(c) /\ st' = c

(* query functions: dest string at st.d, src string flush at the end of the arena; two-operand functions
   use a 3-letter alphabet (a case pair and a high-bit byte), one-operand functions a 7-letter one *)
QAlpha2 == IF QA = 0 THEN {97, 233} ELSE {97, 65, 233}      \* QA: alphabet selector of the query scope
QAlpha1 == {97, 65, 49, 32, 233, 102, 71}
QAlphaNat == IF QA = 0 THEN {97, 49, 32} ELSE {97, 49, 48, 32}      \* natural order: letters, digits (a leading zero), white space
QAlphaOf(fn) == IF fn \in NatFns THEN QAlphaNat ELSE QAlpha2
QKOf(fn) == IF fn \in NatFns \cup {"wcsncmp_s"} THEN Min(K, 2) ELSE K          \* (longer operands of these are seeded: p2.nat_cases, p2.cmp_cases; wcsncmp_s has the count as a further dimension)
RECURSIVE QStrs(_, _)
QStrs(A, k) == IF k = 0 THEN {<<>>} ELSE LET S == QStrs(A, k - 1) IN S \cup {Append(x, c) : x \in {t \in S : Len(t) = k - 1}, c \in A}
TwoOp(fn) == fn \in CmpFns \cup NatFns \cup MemCmpFns \cup FindFns \cup SpanFns \cup IdxFns \cup {"strprefix_s"}
QHasSlen(fn) == fn \in MemCmpFns \cup FindFns \cup SpanFns \cup {"wcscmp_s", "wcsncmp_s", "wcsicmp_s", "wcscoll_s", "wcsnatcmp_s", "wcsnaticmp_s"}
QWidth(fn) == IF fn \in {"wcscmp_s", "wcsncmp_s", "wcsicmp_s", "wcscoll_s", "wcsnatcmp_s", "wcsnaticmp_s", "wcsstr_s", "wcsnlen_s", "wmemcmp_s", "memcmp32_s"} THEN 4 ELSE IF fn = "memcmp16_s" THEN 2 ELSE 1
NextQuery ==
  /\ st.f \in StrQueryFns
  /\ \E dmax \in Sizes \cup {K + 1}, dstr \in (IF TwoOp(st.f) THEN QStrs(QAlphaOf(st.f), QKOf(st.f)) ELSE QStrs(QAlpha1, 2)), dterm \in BOOLEAN,
        flags \in {0, 1} :
     \E dbos \in BosChoices(dmax), sstr \in (IF TwoOp(st.f) THEN QStrs(QAlphaOf(st.f), QKOf(st.f)) ELSE {<<>>}), sterm \in (IF TwoOp(st.f) THEN BOOLEAN ELSE {TRUE}),
        snull \in (IF TwoOp(st.f) THEN BOOLEAN ELSE {TRUE}),
        slen \in (IF QHasSlen(st.f) THEN Sizes \cup {K + 1} ELSE {0}),
        ch \in (IF st.f \in ChrFns THEN {97, 65, 233, 0, 300} ELSE {0}),
        cnt \in (IF st.f = "wcsncmp_s" THEN {0, 1, K, HUGE} ELSE {0}),
        srcknown \in (IF BosMode = 1 /\ TwoOp(st.f) THEN BOOLEAN ELSE {FALSE}),     \* the library knows the size of the source object (its true size)
        stale \in BOOLEAN :      \* stale: the room behind dest's terminator (inside dmax) holds characters the query looks for
       LET d == st.d
           s == IF snull THEN NULLP ELSE N - Len(sstr) - (IF sterm THEN 1 ELSE 0) + 1
           fillv == IF st.f \in ChrFns THEN (IF ch < 256 THEN ch ELSE 97) ELSE IF sstr # <<>> THEN sstr[1] ELSE 97
           a00 == IF d # NULLP THEN Place(Blank, d, dstr, dterm) ELSE Blank
           a0 == IF stale THEN [i \in 1..N |-> IF i > d + Len(dstr) /\ i <= d + dmax - 1 THEN fillv ELSE a00[i]] ELSE a00
           a == IF s # NULLP THEN Place(a0, s, sstr, sterm) ELSE a0
           c == [fn |-> st.f, w |-> QWidth(st.f), d |-> d, dmax |-> dmax, s |-> s, slen |-> slen, c |-> ch, n |-> cnt,
                 dbos |-> dbos, sbos |-> IF srcknown THEN N - s + 1 ELSE UNK, flags |-> flags, pre |-> a, slack |-> 1]      \* (the source object ends with the arena)
       IN /\ (srcknown => (s # NULLP /\ flags = 0 /\ ~stale))
          /\ (d # NULLP => d + Len(dstr) + (IF dterm THEN 1 ELSE 0) <= (IF s = NULLP THEN N + 1 ELSE s))     \* operands do not overlap
          /\ (d = NULLP => dstr = <<>> /\ ~dterm)
          /\ (stale => (d # NULLP /\ dterm /\ dmax # HUGE /\ dmax > Len(dstr) + 1 /\ flags = 0 /\ (s = NULLP \/ d + dmax - 1 < s)))
          /\ (d <= 2 \/ (~TwoOp(st.f) /\ ~dterm /\ d + Len(dstr) = N + 1)) /\ (s = NULLP \/ s <= N)   \* one-operand: also flush against the end
          /\ (flags = 1 => (dmax = 1 /\ dstr = <<>> /\ sstr = <<>> /\ st.f \notin ClassFns \cup LenFns \cup {"strprefix_s"}))
          /\ (snull => (sstr = <<>> /\ sterm /\ (dstr = <<>> \/ ~TwoOp(st.f))))
          \* truthful: dest has dmax elements before the source or the end of the arena
          /\ (d # NULLP /\ dmax # HUGE) => (d + dmax - 1 <= N /\ (s = NULLP \/ d + dmax - 1 < s \/ ScanLen(a, d, dmax) < dmax))
          /\ (d # NULLP /\ dbos # UNK) => d + dbos - 1 <= N
          /\ (s # NULLP /\ QHasSlen(st.f) /\ slen # HUGE) => (s + Min(slen, Len(sstr) + (IF sterm THEN 1 ELSE 0)) - 1 <= N /\ (sterm \/ slen <= Len(sstr)))
          /\ (s # NULLP /\ ~QHasSlen(st.f)) => sterm
          /\ (st.f \in MemCmpFns /\ slen # HUGE /\ s # NULLP) => s + slen - 1 <= N
          /\ (st.f \in MemCmpFns \cup {"strcmpfld_s"} /\ dmax # HUGE /\ s # NULLP) => s + dmax - 1 <= N
          /\ st' = c

(* two-operand queries with dest as the LAST object of the arena (NextQuery always puts the source there): dest's dmax elements
   end with the arena, so that a read of dest[dmax] - a scan that looks at the next element before it looks at the bound -
   faults.  The source is terminated and lies in front. *)
Max2(a, b) == IF a > b THEN a ELSE b
NextQueryDLast ==
  /\ st.f \in StrQueryFns /\ TwoOp(st.f) /\ st.d = N
  /\ \E dstr \in QStrs(QAlphaOf(st.f), QKOf(st.f)), dterm \in BOOLEAN, sstr \in QStrs(QAlphaOf(st.f), QKOf(st.f)), extra \in {0, 1},
        slen \in (IF QHasSlen(st.f) THEN 1..(K + 1) ELSE {0}), cnt \in (IF st.f = "wcsncmp_s" THEN {1, K} ELSE {0}) :
       LET dl == Len(dstr) + (IF dterm THEN 1 ELSE 0)
           dmax == dl + (IF dterm THEN extra ELSE 0)          \* without a terminator dest exactly fills dmax
           d == N - dmax + 1
           s == 2
           sl == Len(sstr) + 1
           need == IF st.f \in MemCmpFns \cup {"strcmpfld_s"} THEN Max2(Max2(sl, slen), dmax) ELSE Max2(sl, slen)
           a == Place(Place(Blank, s, sstr, TRUE), d, dstr, dterm)
           c == [fn |-> st.f, w |-> QWidth(st.f), d |-> d, dmax |-> dmax, s |-> s, slen |-> slen, c |-> 0, n |-> cnt,
                 dbos |-> UNK, sbos |-> UNK, flags |-> 0, pre |-> a, slack |-> 1]
       IN /\ dmax >= 1 /\ d > s /\ s + need - 1 < d
          /\ st' = c

Next == st.fn = "init" /\ (NextStrCopy \/ NextMemCopy \/ NextFill \/ NextMemccpy \/ NextXform \/ NextQuery \/ NextQueryDLast)
Spec == Init /\ [][Next]_st

Cases(c) == {[c EXCEPT !.slack = x] : x \in {0, 1}}
NonEmpty == st.fn # "init" => \A c \in Cases(st) : Outcomes(c) # {}
PropsHold == st.fn # "init" => \A c \in Cases(st) : \A o \in Outcomes(c) : AllProps(c, o)
Inv_C01 == st.fn # "init" => \A c \in Cases(st) : \A o \in Outcomes(c) : C01_T(c, o)
Inv_C03 == st.fn # "init" => \A c \in Cases(st) : \A o \in Outcomes(c) : C03_T(c, o)
Inv_C04 == st.fn # "init" => \A c \in Cases(st) : \A o \in Outcomes(c) : C04_T(c, o)
Inv_C05 == st.fn # "init" => \A c \in Cases(st) : \A o \in Outcomes(c) : C05_T(c, o)
Inv_C06 == st.fn # "init" => \A c \in Cases(st) : \A o \in Outcomes(c) : C06_T(c, o)
Inv_C07 == st.fn # "init" => \A c \in Cases(st) : \A o \in Outcomes(c) : C07_T(c, o)
Inv_C08 == st.fn # "init" => \A c \in Cases(st) : \A o \in Outcomes(c) : C08_T(c, o)
Emit == st.fn = "init" \/ PrintT(<<"CASE", ToJson(st)>>)
=============================================================================
