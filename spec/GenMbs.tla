------------------------------- MODULE GenMbs -------------------------------
(* Bounded call space of the conversion functions (C15), enumerated by TLC; each state is one
   call (direction, locale, source, len, dmax, dest null or not).  The laws of Mbs.tla are
   checked on every source the model produces.  lib/mbs.py replays every state through the
   real functions (both the plain and the restartable form, the latter also continued). *)
EXTENDS Mbs
CONSTANT MaxChars
VARIABLE st

\* units of multibyte strings: valid characters of each width, and ill-formed units
ValidMb(loc) == IF loc = "C" THEN {<<97>>, <<122>>}
                ELSE {<<97>>, <<195, 169>>, <<226, 130, 172>>, <<240, 159, 152, 128>>}   \* 1..4 bytes; 5 and 6 bytes in NextC and the seeded strings
InvalidMb(loc) == IF loc = "C" THEN {<<195, 169>>, <<128>>}
                  ELSE {<<128>>, <<195>>, <<226, 130>>, <<192, 128>>, <<237, 160, 128>>, <<240, 128, 128, 128>>, <<248, 128, 128, 128, 128>>, <<255>>}
ValidWc(loc) == IF loc = "C" THEN {97, 122} ELSE {97, 233, 8364, 128512}
InvalidWc(loc) == IF loc = "C" THEN {233} ELSE {55296, 57343}

RECURSIVE Flat(_)
Flat(us) == IF us = <<>> THEN <<>> ELSE Head(us) \o Flat(Tail(us))
RECURSIVE SeqsOver(_, _)
SeqsOver(S, n) == IF n = 0 THEN {<<>>} ELSE LET P == SeqsOver(S, n - 1) IN P \cup {Append(x, c) : x \in {t \in P : Len(t) = n - 1}, c \in S}
\* all-valid strings, and strings with exactly one ill-formed unit at any position
Ins(v, k, b) == IF k >= Len(v) THEN Append(v, b) ELSE SubSeq(v, 1, k) \o <<b>> \o SubSeq(v, k + 1, Len(v))
MbStrs(loc) == {Flat(u) \o <<0>> : u \in SeqsOver(ValidMb(loc), MaxChars)} \cup
               {Flat(Ins(v, k, b)) \o <<0>> :
                   v \in SeqsOver(ValidMb(loc), MaxChars - 1), k \in 0..(MaxChars - 1), b \in InvalidMb(loc)}
WcStrs(loc) == {u \o <<0>> : u \in SeqsOver(ValidWc(loc), MaxChars)} \cup
               {Ins(v, k, b) \o <<0>> :
                   v \in SeqsOver(ValidWc(loc), MaxChars - 1), k \in 0..(MaxChars - 1), b \in InvalidWc(loc)}

Nat0(S) == {x \in S : x >= 0}
Init == st = [dir |-> "init", loc |-> "C", src |-> <<>>, len |-> 0, dmax |-> 0, dn |-> 0]
NextM == \E loc \in {"C", "UTF8"} : \E b \in MbStrs(loc) :
           LET L == Len(StdMbsrtowcs(b, 1, 0, TRUE, loc).out) IN    \* characters in front of the terminator or the ill-formed unit
           \/ \E len \in Nat0({0, 1, L - 1, L, L + 1, L + 2, 9}), dmax \in Nat0({1, 2, L, L + 1, L + 2, 9}) \ {0} :
                st' = [dir |-> "m", loc |-> loc, src |-> b, len |-> len, dmax |-> dmax, dn |-> 0]
           \/ \E len \in {0, 9}, dmax \in Nat0({0, L, L + 1, 9}) :
                st' = [dir |-> "m", loc |-> loc, src |-> b, len |-> len, dmax |-> dmax, dn |-> 1]
NextW == \E loc \in {"C", "UTF8"} : \E w \in WcStrs(loc) :
           LET L == Len(StdWcsrtombs(w, 1, 0, TRUE, loc).out) IN    \* bytes
           \/ \E len \in Nat0({0, 1, 2, 3, 4, L - 1, L, L + 1, L + 2, 17}), dmax \in Nat0({1, 2, 3, 4, L, L + 1, L + 2, 17}) \ {0} :
                st' = [dir |-> "w", loc |-> loc, src |-> w, len |-> len, dmax |-> dmax, dn |-> 0]
           \/ \E len \in {0, 17}, dmax \in Nat0({0, L, L + 1, 17}) :
                st' = [dir |-> "w", loc |-> loc, src |-> w, len |-> len, dmax |-> dmax, dn |-> 1]
NextC == \E loc \in {"C", "UTF8"} : \E c \in ValidWc(loc) \cup InvalidWc(loc) \cup {0, 127, 128, 2047, 2048, 65535, 65536, 1114111, 1114112, 2097151, 2097152, 67108863, 67108864} :
           \/ \E dmax \in 1..8 : st' = [dir |-> "c", loc |-> loc, src |-> <<c>>, len |-> 0, dmax |-> dmax, dn |-> 0]
           \/ \E dmax \in {0, 4} : st' = [dir |-> "c", loc |-> loc, src |-> <<c>>, len |-> 0, dmax |-> dmax, dn |-> 1]
Next == st.dir = "init" /\ (NextM \/ NextW \/ NextC)
Spec == Init /\ [][Next]_st

\* laws of the definitions on every generated source
Laws == /\ st.dir = "m" => QueryLaw(st.src, st.loc) /\ \A k \in 0..MaxChars : ChunkLawMb(st.src, k, st.loc)
        /\ st.dir = "w" => RoundTripLaw(st.src, st.loc) /\ \A k \in 0..(4 * MaxChars) : ChunkLawWc(st.src, k, st.loc)
        /\ st.dir = "c" => (LET e == StdWcrtomb(st.src[1], st.loc) IN e # <<>> => Decode(e \o <<0>>, 1, st.loc).c = st.src[1])
=============================================================================
