----------------------------- MODULE GenPrintf -----------------------------
(* The bounded model of one call of a printf_s family member: TLC enumerates format strings
   from the directive grammar with arguments from the value tables and a destination size
   relative to the text the C standard prescribes, checks the grammar-level properties of
   the contract (the parser recovers exactly the directive the format was built from; a
   format has an n conversion iff one was put in), and emits every call as a case. *)
EXTENDS Printf, PrintfTabs
CONSTANTS Convs, FlagSets, Widths, Precs, Lens, Shapes, IntIdx, Fns
VARIABLE st

FlagSeq(i) == CASE i = 0 -> <<>> [] i = 1 -> <<45>> [] i = 2 -> <<48>> [] i = 3 -> <<43>> [] i = 4 -> <<32>> [] i = 5 -> <<35>>
                [] i = 6 -> <<45, 48>> [] i = 7 -> <<43, 48>> [] i = 8 -> <<35, 32>> [] i = 9 -> <<45, 35>> [] i = 10 -> <<48, 35>>
                [] i = 11 -> <<43, 45>> [] i = 12 -> <<43, 32>> [] i = 13 -> <<45, 43, 48, 35, 32>> [] i = 14 -> <<32, 48>>
                [] i = 15 -> <<73>> [] i = 16 -> <<39>> [] i = 17 -> <<45, 73>>          \* glibc's I and ' (C09 scope only)
RECURSIVE NumChars(_)
NumChars(n) == IF n < 10 THEN <<48 + n>> ELSE Append(NumChars(n \div 10), 48 + Mod(n, 10))
WidthSeq(w) == IF w = -1 THEN <<>> ELSE IF w = -2 THEN <<42>> ELSE NumChars(w)
PrecSeq(p) == IF p = -1 THEN <<>> ELSE IF p = -2 THEN <<46, 42>> ELSE IF p = -3 THEN <<46>> ELSE <<46>> \o NumChars(p)
LenSeq(s) == CASE s = "" -> <<>> [] s = "hh" -> <<104, 104>> [] s = "h" -> <<104>> [] s = "l" -> <<108>> [] s = "ll" -> <<108, 108>>
               [] s = "j" -> <<106>> [] s = "z" -> <<122>> [] s = "t" -> <<116>> [] s = "L" -> <<76>> [] s = "Z" -> <<90>> [] s = "q" -> <<113>>
DirSeq(fi, w, p, ln, cv) == <<37>> \o FlagSeq(fi) \o WidthSeq(w) \o PrecSeq(p) \o LenSeq(ln) \o <<cv>>

(* argument kinds: 1 int (limbs) 2 string (index) 3 double (index) 4 long double (index) 5 wide string (index) 6 n-pointer *)
ArgRec(t, v) == CASE t = 1 -> [t |-> "i", limbs |-> v]
                  [] t = 2 -> [t |-> "s", null |-> v[1] = NullStr, s |-> IF v[1] = NullStr THEN <<>> ELSE StrTab[v[1]]]
                  [] t = 3 -> [t |-> "d", x |-> [cls |-> "opaque", neg |-> FALSE, dig |-> <<>>, e10 |-> 0]]
                  [] t = 4 -> [t |-> "L", x |-> [cls |-> "opaque", neg |-> FALSE, dig |-> <<>>, e10 |-> 0]]
                  [] t = 5 -> [t |-> "S", null |-> FALSE, s |-> WStrTab[v[1]]]
                  [] t = 6 -> [t |-> "n", bytes |-> v[1], changed |-> FALSE]
ArgsOf(at, av) == [i \in 1..Len(at) |-> ArgRec(at[i], SubSeq(av, 4 * i - 3, 4 * i))]
One(x) == <<x, 0, 0, 0>>

(* arguments a directive consumes: star width/precision first, then the value *)
StarArgs(w, p) == (IF w = -2 THEN {<<<<1>>, <<7, 0, 0, 0>>>>, <<<<1>>, <<65532, 65535, 65535, 65535>>>>} ELSE {<<<<>>, <<>>>>})
ValArgs(ln, cv) ==
  IF cv \in IntConvs THEN {<<<<1>>, IntTab[i]>> : i \in IntIdx}
  ELSE IF cv = 99 /\ ln = "l" THEN {<<<<1>>, One(WcTab[i])>> : i \in 1..Len(WcTab)}
  ELSE IF cv = 99 THEN {<<<<1>>, One(65)>>, <<<<1>>, One(0)>>, <<<<1>>, One(233)>>}
  ELSE IF cv = 115 /\ ln = "l" THEN {<<<<5>>, One(i)>> : i \in 1..Len(WStrTab)}
  ELSE IF cv = 115 THEN {<<<<2>>, One(i)>> : i \in 1..Len(StrTab)} \cup {<<<<2>>, One(NullStr)>>}
  ELSE IF cv \in FloatConvs /\ ln = "L" THEN {<<<<4>>, One(i)>> : i \in 1..Len(LdblTab)}
  ELSE IF cv \in FloatConvs THEN {<<<<3>>, One(i)>> : i \in 1..Len(DblTab)}
  ELSE IF cv = 110 THEN {<<<<6>>, One(4)>>}
  ELSE {<<<<>>, <<>>>>}

Dec(v) == IF v >= 900 THEN 899 - v ELSE v      \* cfg files cannot hold negative numbers: 900 = none, 901 = '*', 902 = '.' alone
\* (flag set and width are part of the initial state only to spread TLC's work: all successors of one state are computed by one worker)
Init == st \in {[fn |-> "init", f |-> fn, cv |-> cv, fi |-> fi, w |-> w] : fn \in Fns, cv \in Convs, fi \in FlagSets, w \in {Dec(v) : v \in Widths}}

(* shapes: 1 = <dir>   2 = "a" <dir> "n"   3 = "%%" <dir>   4 = <dir> " %d"   5 = "%%" <text of dir without its %>   6 = "a%1$" <rest of dir>   7 = "a%[" <dir>   8 = "%[]" <dir>   9 = "%[^]" <dir> "]"   10 = "%d|" <dir> *)
Build(shape, d) == CASE shape = 1 -> d [] shape = 2 -> <<97>> \o d \o <<110>> [] shape = 3 -> <<37, 37>> \o d [] shape = 4 -> d \o <<32, 37, 100>>
                     [] shape = 5 -> <<37, 37>> \o Tail(d)         \* an escaped percent followed by the directive's text: all literals
                     [] shape = 6 -> <<97, 37, 49, 36>> \o Tail(d)  \* "a%1$<flags><width>...": the numbered-argument spelling of the directive
                     \* printf has no scan sets: "%[" is an invalid directive which libc prints, going on with what follows (the scanf reading of
                     \* the same text - a set that swallows the directive - does not apply to the printf family)
                     [] shape = 10 -> <<37, 100, 124>> \o d           \* "%d|" <dir>: a directive behind another one (nothing of the first may carry over)
                     [] shape = 7 -> <<97, 37, 91>> \o d [] shape = 8 -> <<37, 91, 93>> \o d [] shape = 9 -> <<37, 91, 94, 93>> \o d \o <<93>>
Next ==
  /\ st.fn = "init"
  /\ \E p \in {Dec(v) : v \in Precs}, ln \in Lens, shape \in Shapes, loc \in {0, 1}, rel \in {0, 1, 3} :
       LET cv == st.cv
           fi == st.fi
           w  == st.w
           d  == DirSeq(fi, w, p, ln, cv)
       IN \E sw \in StarArgs(w, IF p = -2 THEN -2 ELSE -1), sp \in (IF p = -2 THEN {<<<<1>>, <<3, 0, 0, 0>>>>, <<<<1>>, <<65535, 65535, 65535, 65535>>>>} ELSE {<<<<>>, <<>>>>}),
             va \in ValArgs(ln, cv) :
            LET at == IF shape = 5 THEN <<>> ELSE (IF shape = 10 THEN <<1>> ELSE <<>>) \o sw[1] \o sp[1] \o va[1] \o (IF shape = 4 THEN <<1>> ELSE <<>>)
                av == IF shape = 5 THEN <<>> ELSE (IF shape = 10 THEN <<42, 0, 0, 0>> ELSE <<>>) \o sw[2] \o sp[2] \o va[2] \o (IF shape = 4 THEN <<42, 0, 0, 0>> ELSE <<>>)
                fmt == Build(shape, d)
                x == Render(Parse(fmt), ArgsOf(at, av), loc, {<<>>})
                tl == IF x.ok /\ x.texts # {} THEN Len(CHOOSE t \in x.texts : TRUE) ELSE 12
            IN /\ (loc = 1 => (cv \in {99, 115} /\ ln = "l"))          \* the locale only matters for lc / ls
               /\ (ln = "L" => cv \in FloatConvs) /\ (cv \in FloatConvs => ln \in {"", "L"})
               /\ (cv \in {99, 115} => ln \in {"", "l"}) /\ (cv = 37 => ln = "") /\ (cv = 110 => ln # "L")
               /\ (cv = 37 => (fi = 0 /\ w = -1 /\ p = -1))             \* "%%" is the complete specification
               /\ (shape = 5 => (w # -2 /\ p # -2))
               /\ (shape \in {7, 8, 9} => cv = 110)
               /\ (shape = 10 => cv # 110)
               /\ (shape = 6 => (w # -2 /\ p # -2 /\ cv # 37))       \* (a numbered directive takes all its arguments by number: no plain '*')
               /\ st' = [fn |-> st.f, fmt |-> fmt, at |-> at, av |-> av, loc |-> loc, dmax |-> IF tl + rel = 0 THEN 1 ELSE tl + rel, tlen |-> tl,
                         shape |-> shape, fi |-> fi, w |-> w, p |-> p, ln |-> ln, cv |-> cv]
(* ---- scanf formats for C09: pre-piece, an n directive (or its escaped text), post-piece; the input text is
        synthesised so that every directive is actually reached.  Argument kind 7 = scratch target. ---- *)
\* 8.. scan sets: %[a-z]  %[^]]  %[]]  %[]%n] (a set holding ']', '%' and 'n')  %*[^]]  %[^]x]
ScanPre == << <<>>, <<37, 100>>, <<37, 37>>, <<97>>, <<37, 42, 100>>, <<37, 51, 115>>, <<37, 37, 37, 37>>,
              <<37, 91, 97, 45, 122, 93>>, <<37, 91, 94, 93, 93>>, <<37, 91, 93, 93>>, <<37, 91, 93, 37, 110, 93>>, <<37, 42, 91, 94, 93, 93>>, <<37, 91, 94, 93, 120, 93>> >>
ScanPreInp == << <<>>, <<49, 50>>, <<37>>, <<97>>, <<55>>, <<120, 121, 122>>, <<37, 37>>, <<97, 98>>, <<113>>, <<93>>, <<110>>, <<113>>, <<113>> >>
ScanPreArgs == << <<>>, <<7>>, <<>>, <<>>, <<>>, <<7>>, <<>>, <<7>>, <<7>>, <<7>>, <<7>>, <<>>, <<7>> >>
ScanN == << <<37, 110>>, <<37, 108, 110>>, <<37, 104, 104, 110>>, <<37, 108, 108, 110>>, <<37, 53, 110>>, <<37, 42, 110>>, <<37, 37, 110>>, <<110>>, <<37, 104, 110>>, <<37, 106, 110>>,
           <<37, 49, 36, 110>>, <<37, 49, 36, 108, 110>>,        \* "%1$n" "%1$ln"
           <<37, 73, 110>>, <<37, 109, 110>>, <<37, 39, 110>>, <<37, 109, 108, 110>> >>      \* glibc: "%In" "%mn" "%'n" "%mln"
ScanNHas == <<TRUE, TRUE, TRUE, TRUE, TRUE, FALSE, FALSE, FALSE, TRUE, TRUE, TRUE, TRUE, TRUE, TRUE, TRUE, TRUE>>
ScanNInp == << <<>>, <<>>, <<>>, <<>>, <<>>, <<>>, <<37, 110>>, <<110>>, <<>>, <<>>, <<>>, <<>>, <<>>, <<>>, <<>>, <<>> >>
ScanPost == << <<>>, <<32, 37, 100>> >>
NextScan ==
  /\ st.fn = "init" /\ st.cv = 110 /\ st.fi = 0 /\ st.w = -1
  /\ \E a \in 1..Len(ScanPre), b \in 1..Len(ScanN), c \in 1..Len(ScanPost) :
       LET fmt == ScanPre[a] \o ScanN[b] \o ScanPost[c]
           inp == ScanPreInp[a] \o ScanNInp[b] \o (IF c = 2 THEN <<32, 53>> ELSE <<>>)
           at == ScanPreArgs[a] \o (IF ScanNHas[b] THEN <<6>> ELSE <<>>) \o (IF c = 2 THEN <<7>> ELSE <<>>)
           av == [i \in 1..(4 * Len(at)) |-> IF Mod(i, 4) = 1 THEN 8 ELSE 0]
       IN st' = [fn |-> "scan", fmt |-> fmt, inp |-> inp, at |-> at, av |-> av, hasn |-> ScanNHas[b], loc |-> 0, dmax |-> 0]
SpecAll == Init /\ [][Next \/ NextScan]_st
Spec == Init /\ [][Next]_st

(* ---- grammar-level properties of the contract, checked on every enumerated call ---- *)
DirOf(s) == LET P == Parse(s.fmt) IN
            IF s.shape \in {7, 8, 9} THEN CHOOSE i \in 1..Len(P) : P[i].k = "dir" /\ \A j \in (i + 1)..Len(P) : P[j].k # "dir"      \* behind the invalid "%["
            ELSE CHOOSE i \in 1..Len(P) : P[i].k = "dir" /\ (s.shape \notin {3, 10} \/ i > 1)
ParserRecovers ==
  (st.fn \notin {"init", "scan"} /\ st.shape # 5) =>
    LET P == Parse(st.fmt)
        it == P[DirOf(st)]
    IN /\ it.cv = st.cv /\ it.len = st.ln /\ it.w = st.w /\ it.p = (IF st.p = -3 THEN 0 ELSE st.p)
       /\ it.fl = {FlagSeq(st.fi)[k] : k \in 1..Len(FlagSeq(st.fi))}
       /\ (st.shape = 3 => P[1].k = "dir" /\ P[1].cv = 37)
NConvIffBuilt == /\ st.fn \notin {"init", "scan"} => (HasNConv(st.fmt) <=> (st.cv = 110 /\ st.shape # 5))
                 /\ st.fn = "scan" => (ScanHasNConv(st.fmt) <=> st.hasn)
ArgsConsumed ==     \* a valid directive consumes exactly the arguments the C standard says
  st.fn \notin {"init", "scan"} => LET x == Render(Parse(st.fmt), ArgsOf(st.at, st.av), st.loc, {<<>>}) IN x.err # -2
=============================================================================
