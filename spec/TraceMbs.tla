------------------------------ MODULE TraceMbs ------------------------------
(* C15 trace validation.  Every recorded call of mbstowcs_s / mbsrtowcs_s / wcstombs_s /
   wcsrtombs_s / wcrtomb_s / wctomb_s is judged against the definitions of Mbs.tla:
   first the standard function's own recorded result must be the one Mbs.tla defines (the
   specification really is "what the C library does": a disagreement is reported as ORACLE and
   treated as a failure of the machinery, not of the library), then the _s function must
   deliver that result when it fits into dmax with its terminator and fail with a cleared
   dest otherwise, never touching anything outside dest[0..dmax). *)
EXTENDS Mbs, Json, IOUtils
EOVERFLOW == 75
VARIABLES l, bad
T == ndJsonDeserialize(IOEnv.TRACE)

RMAX(e) == 1024      \* the limit the six functions use for dmax and len (RSIZE_MAX_WSTR), also where the documentation says RSIZE_MAX_STR
Single(e) == e.fn \in {5, 6}
Restart(e) == e.fn \in {2, 4}
Std(e) ==
  IF e.fn \in {1, 2} THEN StdMbsrtowcs(e.src, e.start, e.len, e.dn = 1, e.loc)
  ELSE IF e.fn \in {3, 4} THEN StdWcsrtombs(e.src, e.start, e.len, e.dn = 1, e.loc)
  ELSE LET b == StdWcrtomb(e.src[1], e.loc) IN
       [out |-> b, cnt |-> IF b = <<>> THEN -1 ELSE Len(b), stop |-> "one", pos |-> 0]

\* the recorded result of the standard function equals the definition
OracleWhy(e, R) ==
  IF e.lcnt = -2 THEN ""                       \* not run (null operands, oversized len)
  ELSE IF Single(e) /\ e.dn = 1 THEN ""
  ELSE IF e.lcnt # R.cnt THEN "ORACLE_count"
  ELSE IF R.cnt >= 0 /\ e.dn = 0 /\ (Len(e.lout) < Len(R.out) \/ \E i \in 1..Len(R.out) : e.lout[i] # R.out[i]) THEN "ORACLE_content"
  ELSE IF R.cnt >= 0 /\ e.dn = 0 /\ Restart(e) /\ e.lpos # R.pos THEN "ORACLE_srcp"
  ELSE ""

AllZeroFrom(p, k) == \A i \in k..Len(p) : p[i] = 0
Cleared(e) == Len(e.post) >= 1 /\ e.post[1] = 0 /\ (e.slack = 1 => AllZeroFrom(e.post, 1))
Has(f, bit) == Mod(f \div bit, 2) = 1

Why(e) ==
  LET R == Std(e)
      o == OracleWhy(e, R)
      n == R.cnt
      chars == IF n >= 0 THEN SubSeq(R.out, 1, n) ELSE <<>>
  IN IF e.fault = "w" THEN "write_outside_dest" ELSE IF e.fault # "none" THEN "fault_" \o e.fault
     ELSE IF ~e.frame_ok THEN "write_in_front_of_dest"
     ELSE IF Has(e.flags, 4) THEN (IF e.rc # ESNULLP THEN "retvalp_null_accepted" ELSE IF e.hn # 1 THEN "report" ELSE "")
     ELSE IF Has(e.flags, 16) /\ e.fn \in {2, 4, 5} THEN (IF e.rc # ESNULLP THEN "ps_null_accepted" ELSE IF e.hn # 1 THEN "report" ELSE "")
     ELSE IF ~Single(e) /\ (Has(e.flags, 8) \/ Has(e.flags, 32) \/ e.start = 0) THEN
          (IF e.rc # ESNULLP THEN "src_null_accepted" ELSE IF e.hn # 1 THEN "report"
           ELSE IF e.dn = 0 /\ e.dmax >= 1 /\ e.dmax <= RMAX(e) /\ Len(e.post) >= 1 /\ ~Cleared(e) THEN "dest_not_cleared" ELSE "")
     ELSE IF e.ps0 = 0 THEN ""       \* the state object was not initial when the call began: reported at the call that left it so
     ELSE IF o # "" THEN o
     ELSE IF e.psinit = 0 THEN "conversion_state_left_mid_character"
     ELSE IF e.dn = 1 THEN
          (IF Single(e) THEN
             (IF e.dmax # 0 THEN (IF e.rc # ESNULLP THEN "null_dest_with_dmax_accepted" ELSE "")
              ELSE IF e.rc \notin {EOK, ESNOSPC} THEN "query_rc" ELSE "")
           ELSE IF n < 0 THEN (IF e.rc = EOK THEN "encoding_error_accepted" ELSE "")
           ELSE IF e.ret # n THEN "query_length_wrong"
           ELSE IF e.rc \notin {EOK, ESNOSPC} THEN "query_rc"
           ELSE IF e.hn > 1 THEN "report"
           ELSE IF Restart(e) /\ e.pos # e.start THEN "query_moved_srcp" ELSE "")
     ELSE IF e.dmax = 0 THEN (IF e.rc # ESZEROL THEN "dmax_zero_accepted" ELSE IF e.hn # 1 THEN "report" ELSE "")
     ELSE IF e.dmax > RMAX(e) \/ e.len > RMAX(e) THEN (IF e.rc # ESLEMAX THEN "oversize_accepted" ELSE IF e.hn # 1 THEN "report" ELSE "")
     ELSE IF ~Single(e) /\ Has(e.flags, 64) /\ e.len > e.dmax THEN
          \* the size of the destination object is known (here: exactly dmax elements) and len exceeds it: documented for wcstombs_s /
          \* wcsrtombs_s ("EOVERFLOW when dmax or len > size of dest"), applied by all four - reported, dest left empty
          (IF e.rc # EOVERFLOW THEN (IF e.rc = EOK THEN "len_above_object_size_accepted" ELSE "report")
           ELSE IF e.hn # 1 THEN "report" ELSE IF ~Cleared(e) THEN "dest_not_cleared" ELSE "")
     ELSE IF n < 0 THEN
          (IF e.rc = EOK THEN "encoding_error_accepted" ELSE IF ~Cleared(e) THEN "dest_not_cleared" ELSE IF e.hn > 1 THEN "report" ELSE "")
     ELSE IF ~Single(e) /\ e.len >= e.dmax /\ R.stop = "len" THEN
          \* C11 K.3.6.5.1/2: with len >= dmax the conversion must have ended at the terminator (or an encoding error): a runtime-constraint violation
          (IF e.rc = EOK THEN "no_room_accepted" ELSE IF ~Cleared(e) THEN "dest_not_cleared" ELSE IF e.hn # 1 THEN "report" ELSE "")
     ELSE IF n < e.dmax THEN
          (IF e.rc # EOK THEN "spurious_failure"
           ELSE IF e.ret # n THEN "count_differs_from_standard"
           ELSE IF SubSeq(e.post, 1, n) # chars THEN "content_differs_from_standard"
           ELSE IF e.post[n + 1] # 0 /\ ~Single(e) THEN "unterminated"          \* (one character: no terminator is promised without NULL_SLACK)
           ELSE IF e.slack = 1 /\ ~AllZeroFrom(e.post, n + 1) THEN "stale_slack"
           ELSE IF e.hn # 0 THEN "handler_on_success"
           ELSE IF Restart(e) /\ e.pos # R.pos THEN "srcp_differs_from_standard"
           ELSE "")
     ELSE IF Single(e) /\ n = e.dmax /\ e.rc = EOK THEN       \* C11: exactly filling dest is allowed for one character (no terminator is promised)
          (IF e.ret # n \/ e.post # chars THEN "content_differs_from_standard" ELSE "")
     ELSE (IF e.rc = EOK THEN "no_room_accepted" ELSE IF ~Cleared(e) THEN "dest_not_cleared" ELSE IF e.hn # 1 THEN "report" ELSE "")

TInit == l = 1 /\ bad = <<>>
TNext == /\ l <= Len(T) /\ l' = l + 1
         /\ LET w == Why(T[l]) IN bad' = IF w = "" THEN bad ELSE Append(bad, [i |-> T[l].id, why |-> w, dev |-> ""])
TSpec == TInit /\ [][TNext]_<<l, bad>>
Report == (l = Len(T) + 1) => PrintT(<<"RESULT", ToJson([n |-> Len(T), bad |-> bad])>>)
=============================================================================
