-------------------------- MODULE TraceTimingSafe --------------------------
(* C19 trace validation.  Three kinds of recorded events:
   res    a call of the real function: the result must satisfy the contract of TimingSafe.tla
   taint  a run under memcheck with both regions undefined: no conditional jump / address may
          depend on them inside the call
   shape  a run under lackey: the sequence of instructions executed and addresses accessed
          inside the function (hashed), per build, function and n.  The trace state keeps the
          shape first seen for each key; a later run with other contents must show the same one
          (the 2-safety property checked as a monitor), every operand byte below n must be
          read and none at or above n. *)
EXTENDS TimingSafeContract, TLC, Json, IOUtils
VARIABLES l, bad, shapes
T == ndJsonDeserialize(IOEnv.TRACE)
FnName(f) == IF f = 1 THEN "bcmp" ELSE "memcmp"
Why(e) ==
  IF e.e = "res" THEN
       (IF e.fault # "none" THEN "fault_" \o e.fault
        ELSE IF e.hn # 0 THEN "handler_called"
        ELSE IF ~ResultOK(FnName(e.fn), e.a, e.b, e.ret) THEN "wrong_result" ELSE "")
  ELSE IF e.e = "taint" THEN
       (IF e.valgrind # 1 THEN "ORACLE_not_under_valgrind" ELSE IF e.errors # 0 THEN "decision_depends_on_contents" ELSE "")
  ELSE IF e.e = "shape" THEN
       (IF e.ninstr = 0 THEN "ORACLE_empty_trace"
        ELSE IF e.key \in DOMAIN shapes /\ shapes[e.key] # e.hash THEN "trace_depends_on_contents"
        ELSE IF e.over # 0 THEN "reads_beyond_n"
        ELSE IF ~e.cover THEN "not_every_byte_read"
        ELSE "")
  ELSE "ORACLE_unknown_event"
TInit == l = 1 /\ bad = <<>> /\ shapes = <<>>
TNext == /\ l <= Len(T) /\ l' = l + 1
         /\ LET e == T[l] w == Why(e) IN
              /\ bad' = IF w = "" THEN bad ELSE Append(bad, [i |-> e.id, why |-> w, dev |-> ""])
              /\ shapes' = IF e.e = "shape" /\ e.key \notin DOMAIN shapes THEN shapes @@ (e.key :> e.hash) ELSE shapes
TSpec == TInit /\ [][TNext]_<<l, bad, shapes>>
Report == (l = Len(T) + 1) => PrintT(<<"RESULT", ToJson([n |-> Len(T), bad |-> bad])>>)
=============================================================================
