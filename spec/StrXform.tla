------------------------------ MODULE StrXform ------------------------------
(* Contracts of the in-place string transforms: strtolowercase_s strtouppercase_s
   wcslwr_s wcsupr_s strljustify_s strremovews_s strnterminate_s. *)
EXTENDS Base

CaseFns  == {"strtolowercase_s", "strtouppercase_s", "wcslwr_s", "wcsupr_s"}
StrXformFns == CaseFns \cup {"strljustify_s", "strremovews_s", "strnterminate_s"}

IsUpperA(c) == c >= 65 /\ c <= 90
IsLowerA(c) == c >= 97 /\ c <= 122
ToLowerA(c) == IF IsUpperA(c) THEN c + 32 ELSE c
ToUpperA(c) == IF IsLowerA(c) THEN c - 32 ELSE c
IsBlank(c) == c = 32 \/ c = 9

(* wcslwr_s/wcsupr_s document "slen = 0 is allowed" and take (src, slen): no ESZEROL *)
XDestViol(e) == IF e.fn \in {"wcslwr_s", "wcsupr_s"} THEN DestViol(e) \ {ESZEROL} ELSE DestViol(e)

CaseOutcomes(e) ==
  LET a == e.pre  d == e.d  dmax == e.dmax
      f(c) == IF e.fn \in {"strtolowercase_s", "wcslwr_s"} THEN ToLowerA(c) ELSE ToUpperA(c)
  IN IF e.fn \in {"wcslwr_s", "wcsupr_s"} /\ dmax = 0 THEN {OkOut(Untouched(a))}
     ELSE IF XDestViol(e) # {} THEN Errs(XDestViol(e), Untouched(a))
     ELSE LET len == ScanLen(a, d, dmax)
          IN {OkOut(Tmpl(a, [i \in Rng(d, len) |-> Ex(f(a[i]), {"C06"})]))}

RECURSIVE LeadBlanks(_, _, _)
LeadBlanks(a, p, len) == IF len > 0 /\ IsBlank(a[p]) THEN 1 + LeadBlanks(a, p + 1, len - 1) ELSE 0
RECURSIVE TrailBlanks(_, _, _)
TrailBlanks(a, p, len) == IF len > 0 /\ IsBlank(a[p + len - 1]) THEN 1 + TrailBlanks(a, p, len - 1) ELSE 0

JustifyOutcomes(e) ==
  LET a == e.pre  d == e.d  dmax == e.dmax
  IN IF DestViol(e) # {} THEN Errs(DestViol(e), Untouched(a))
     ELSE IF dmax = 1 THEN {OkOut(Tmpl(a, [i \in {d} |-> Ex(0, {"C03", "C06"})]))}
     ELSE LET len == ScanLen(a, d, dmax)
          IN IF len >= dmax THEN Errs({ESUNTERM}, ClearedMem(e, TRUE))
             ELSE LET k == LeadBlanks(a, d, len)
                      t == IF e.fn = "strremovews_s" /\ k < len THEN TrailBlanks(a, d, len) ELSE 0
                      n == len - k - t          \* length of the result
                  IN {OkOut(Tmpl(a, [i \in Rng(d, len + 1) |->
                         IF k = 0 /\ t = 0 THEN Same({"C06"})
                         ELSE IF i < d + n THEN Ex(a[i + k], {"C06"})
                         ELSE IF i = d + n THEN Ex(0, {"C03", "C06"})
                         ELSE AnyC]))}

TerminateOutcomes(e) ==
  LET a == e.pre  d == e.d  dmax == e.dmax
  IN IF DestViol(e) # {} THEN {WithO1(Out("err", {NOSTAT}, {<<c>>}, Untouched(a)), {0}) : c \in DestViol(e)}
     ELSE LET len == ScanLen(a, d, dmax - 1)
          IN {WithO1(StatusOut(NOSTAT, Tmpl(a, [i \in {d + len} |-> Ex(0, {"C03", "C06"})])), {len})}

StrXformOutcomes(e) ==
  CASE e.fn \in CaseFns -> CaseOutcomes(e)
    [] e.fn \in {"strljustify_s", "strremovews_s"} -> JustifyOutcomes(e)
    [] e.fn = "strnterminate_s" -> TerminateOutcomes(e)
(* Known finding: both functions look for the terminator before testing the remaining count,
   so they read dest[dmax]; a terminator found exactly there is accepted (the unit tests call
   them with dmax = strlen(dest)). *)
StrXformDeviations(e) ==
  IF e.fn \in {"strljustify_s", "strremovews_s"} /\ DestViol(e) = {} /\ e.dmax >= 2
     /\ ScanLen(e.pre, e.d, e.dmax) >= e.dmax
  THEN IF e.d + e.dmax > Len(e.pre)
       THEN {[name |-> "Dev_justify_term_at_dmax", props |-> {"C02"},
              o |-> WithFault(Out("err", {-9999}, {<<>>}, Untouched(e.pre)), "r", {e.d + e.dmax})]}
       ELSE IF e.pre[e.d + e.dmax] = 0
       THEN {[name |-> "Dev_justify_term_at_dmax", props |-> {"C02", "C05"}, o |-> x] :
                x \in JustifyOutcomes([e EXCEPT !.dmax = e.dmax + 1, !.dbos = IF e.dbos = UNK THEN UNK ELSE Max(e.dbos, e.dmax + 1)])}     \* (a known object size that ends in front of that terminator does not stop the scan either)
       ELSE {}
  ELSE {}
=============================================================================
