------------------------------- MODULE Alloc -------------------------------
(* C20: the allocation discipline of one library call, as a state machine over the
   allocator events the call produces.  A behaviour of this spec is an acceptable call:
   a failed request is never used (no crash), every block is released before the call
   returns, and when any request failed the call returns a failure indication with dest
   cleared.  Recorded event sequences of the real library are validated against it
   (TraceAlloc); TLC also explores the machine itself up to MaxReq requests. *)
EXTENDS Naturals, FiniteSets, Sequences, TLC
CONSTANT MaxReq
VARIABLES live,      \* ids of the blocks currently allocated by the call
          nreq,      \* allocation requests made so far
          failed,    \* some request has failed
          nextid, st \* st: "running" | "returned"
vars == <<live, nreq, failed, nextid, st>>
Init == live = {} /\ nreq = 0 /\ failed = FALSE /\ nextid = 1 /\ st = "running"

Malloc(ok) == /\ st = "running" /\ nreq < MaxReq
              /\ nreq' = nreq + 1
              /\ IF ok THEN live' = live \cup {nextid} /\ nextid' = nextid + 1 /\ UNCHANGED failed
                       ELSE failed' = TRUE /\ UNCHANGED <<live, nextid>>
              /\ UNCHANGED st
Realloc(old, ok) == /\ st = "running" /\ nreq < MaxReq /\ (old = 0 \/ old \in live)
                    /\ nreq' = nreq + 1
                    /\ IF ok THEN live' = (live \ {old}) \cup {nextid} /\ nextid' = nextid + 1 /\ UNCHANGED failed
                             ELSE failed' = TRUE /\ UNCHANGED <<live, nextid>>          \* the old block stays allocated
                    /\ UNCHANGED st
Free(p) == /\ st = "running" /\ p \in live                  \* never a block that is not live (double free, foreign pointer)
           /\ live' = live \ {p} /\ UNCHANGED <<nreq, failed, nextid, st>>
(* returning is only acceptable with nothing leaked, and after a failed request only as a
   failure with dest cleared *)
Return(fail, cleared) == /\ st = "running" /\ live = {}
                         /\ (failed => (fail /\ cleared))
                         /\ st' = "returned" /\ UNCHANGED <<live, nreq, failed, nextid>>
Next == \/ \E ok \in BOOLEAN : Malloc(ok)
        \/ \E old \in live \cup {0}, ok \in BOOLEAN : Realloc(old, ok)
        \/ \E p \in live : Free(p)
        \/ \E f \in BOOLEAN, c \in BOOLEAN : Return(f, c)
Spec == Init /\ [][Next]_vars
(* properties of the machine *)
NoLeakAtReturn == st = "returned" => live = {}
TypeOK == live \subseteq 1..(MaxReq + 1) /\ nreq \in 0..MaxReq /\ Cardinality(live) <= nreq
=============================================================================
