------------------------------ MODULE TraceNorm ------------------------------
(* C17 trace validation: wcsnorm_s (NFD, NFC), and the announced / emitted lengths of the
   case-folding functions. *)
EXTENDS NormDefs, Json, IOUtils
ESLEMAX == 403  ESNOSPC == 406 ESLEMIN == 402
VARIABLES l, bad
T == ndJsonDeserialize(IOEnv.TRACE)
AllZero(p, k) == \A i \in k..Len(p) : p[i] = 0
Prefix(p, r) == Len(p) > Len(r) /\ \A i \in 1..Len(r) : p[i] = r[i]
\* Named deviation Dev_norm_037E_kept: the library leaves U+037E GREEK QUESTION MARK as it is (its canonical singleton
\* decomposition U+003B is stored as index 0 of the length-1 table, and the packed value 0 also means "no mapping"); the
\* repository's own test pins that result, so it cannot be repaired without editing the test.  The library's result is then
\* the normal form of the string with U+037E treated as an inert starter.
PH == 57344
Subst(s, a, b) == [i \in 1..Len(s) |-> IF s[i] = a THEN b ELSE s[i]]
Has(s, a) == \E i \in 1..Len(s) : s[i] = a
RefOf(e, s) == IF e.mode = 0 THEN NFD(s) ELSE NFC(s)
JudgeNorm(e, ref) ==
  LET bad_cp == \E i \in 1..Len(e.s) : ~Scalar(e.s[i]) \/ e.s[i] > 1114111
  IN IF e.fault = "w" THEN "write_fault" ELSE IF e.fault # "none" THEN "fault_" \o e.fault
     ELSE IF ~e.frame_ok THEN "write_outside_dest"
     ELSE IF \E i \in 1..Len(e.s) : e.s[i] > 1114111 THEN
          (IF e.rc = 0 THEN "out_of_range_accepted" ELSE IF e.hn # 1 THEN "report" ELSE "")
     ELSE IF bad_cp THEN ""                                     \* surrogates: either way
     ELSE IF e.rc = 0 THEN
          (IF ~Prefix(e.post, ref) THEN "wrong_normal_form"
           ELSE IF e.post[Len(ref) + 1] # 0 THEN "unterminated"
           ELSE IF e.len # Len(ref) THEN "wrong_length"
           ELSE IF e.hn # 0 THEN "handler_on_success"
           ELSE IF e.slack = 1 /\ ~AllZero(e.post, Len(ref) + 1) THEN "stale_slack" ELSE "")
     ELSE \* failure: admitted when the result (or the intermediate decomposition) does not fit, or dmax is below the documented minimum
          \* (the decomposition step asks for room for the longest single expansion - 4 elements and the terminator - behind what is already stored)
          (IF Len(NFD(e.s)) + 5 <= e.dmax /\ e.dmax >= 5 THEN "spurious_failure"
           ELSE IF e.hn # 1 THEN "report"
           ELSE IF e.dmax >= 1 /\ e.post[1] # 0 THEN "dest_not_cleared" ELSE "")
WhyNorm(e) == JudgeNorm(e, RefOf(e, e.s))
DevNorm(e) ==
  IF e.op = "n" /\ Has(e.s, 894) /\ ~Has(e.s, PH) /\ JudgeNorm(e, Subst(RefOf(e, Subst(e.s, 894, PH)), PH, 894)) = ""
  THEN "Dev_norm_037E_kept" ELSE ""
WhyFold(e) ==   \* e.ann = iswfc(cp); e.n = towfc_s result; e.wn = characters wcsfc_s emitted for the single character
  IF e.fault # "none" THEN "fault_" \o e.fault
  ELSE IF e.cp > 1114111 THEN (IF e.n >= 0 \/ e.wrc = 0 THEN "out_of_range_accepted" ELSE "")
  ELSE IF e.ann > 1 /\ e.n # e.ann THEN "towfc_count_differs_from_iswfc"
  ELSE IF e.ann = 1 /\ e.n > 1 THEN "towfc_emits_more_than_announced"       \* (iswfc may over-announce an identity mapping: documented)
  ELSE IF e.ann = 0 /\ e.n > 0 THEN "towfc_maps_but_iswfc_says_no"
  ELSE IF e.wrc = 0 /\ e.wn > (IF e.ann = 0 THEN 1 ELSE e.ann) * 3 THEN "wcsfc_longer_than_announced"
  ELSE ""
\* wcsfc_s on a string (op "w"): e.each[i] = what wcsfc_s emits for the i-th character alone.  The documentation asks for room
\* for 5 elements ("dmax shall not be smaller than 5"); the library applies that to what is left at every character.
RECURSIVE SumSeq(_)
SumSeq(q) == IF q = <<>> THEN 0 ELSE Head(q) + SumSeq(Tail(q))
WhyFoldStr(e) ==
  LET total == SumSeq(e.each)
  IN IF e.fault = "w" THEN "write_fault" ELSE IF e.fault # "none" THEN "fault_" \o e.fault
     ELSE IF ~e.frame_ok THEN "write_outside_dest"
     ELSE IF \E i \in 1..Len(e.each) : e.each[i] < 0 THEN ""          \* a character the function rejects by itself: not judged here
     ELSE IF e.rc = 0 THEN
          (IF e.len + 1 > e.dmax THEN "no_room_accepted"
           ELSE IF e.post[e.len + 1] # 0 THEN "unterminated"
           ELSE IF \E i \in 1..e.len : e.post[i] = 0 THEN "null_inside_result"
           ELSE IF e.len > total THEN "longer_than_the_characters_alone"
           ELSE IF e.hn # 0 THEN "handler_on_success"
           ELSE IF e.slack = 1 /\ ~AllZero(e.post, e.len + 1) THEN "stale_slack" ELSE "")
     ELSE (IF e.dmax >= total + 5 THEN "spurious_failure"
           ELSE IF e.hn # 1 THEN "report"
           ELSE IF e.dmax >= 1 /\ e.post[1] # 0 THEN "dest_not_cleared" ELSE "")
\* The stages of wcsnorm_s are entry points of their own (ops "d", "r", "c"): wcsnorm_decompose_s gives the full canonical
\* decomposition in the order of the source (UAX #15 D68 without the Canonical Ordering Algorithm), wcsnorm_reorder_s applies the
\* Canonical Ordering Algorithm to len elements, wcsnorm_compose_s the Canonical Composition Algorithm to a canonically
\* ordered, fully decomposed string of *lenp elements (other input is not judged).  Each must store its result and the
\* terminator inside dmax or fail (one report, dest emptied): "ESNOSPC when dmax too small for the result buffer".
StageRef(e) == IF e.op = "d" THEN DecompStr(e.s) ELSE IF e.op = "r" THEN Reorder(<<>>, e.s) ELSE ComposeRec(<<>>, 0, 0, e.s)
WhyStage(e) ==
  LET ref == StageRef(e)
      room == IF e.op = "d" THEN Len(ref) + 5 ELSE Len(ref) + 1     \* decompose asks for the longest single expansion behind what is stored
  IN IF e.fault = "w" THEN "write_fault" ELSE IF e.fault # "none" THEN "fault_" \o e.fault
     ELSE IF ~e.frame_ok THEN "write_outside_dest"
     ELSE IF \E i \in 1..Len(e.s) : ~Scalar(e.s[i]) THEN ""
     ELSE IF e.op = "c" /\ e.s # NFD(e.s) THEN ""
     ELSE IF e.rc = 0 THEN
          (IF e.dmax <= Len(ref) THEN "no_room_accepted"
           ELSE IF ~Prefix(e.post, ref) THEN "wrong_stage_result"
           ELSE IF e.post[Len(ref) + 1] # 0 THEN "unterminated"
           ELSE IF e.op # "r" /\ e.len # Len(ref) THEN "wrong_length"
           ELSE IF e.hn # 0 THEN "handler_on_success"
           ELSE IF e.op # "r" /\ e.slack = 1 /\ ~AllZero(e.post, Len(ref) + 1) THEN "stale_slack" ELSE "")
     ELSE (IF e.dmax >= room /\ (e.op # "d" \/ e.dmax >= 5) THEN "spurious_failure"
           ELSE IF e.hn # 1 THEN "report"
           ELSE IF e.dmax >= 1 /\ e.post[1] # 0 THEN "dest_not_cleared" ELSE "")
Why(e) == IF e.op = "n" THEN WhyNorm(e) ELSE IF e.op = "w" THEN WhyFoldStr(e) ELSE IF e.op \in {"d", "r", "c"} THEN WhyStage(e) ELSE WhyFold(e)
TInit == l = 1 /\ bad = <<>>
TNext == /\ l <= Len(T) /\ l' = l + 1
         /\ LET w == Why(T[l]) IN bad' = IF w = "" THEN bad ELSE Append(bad, [i |-> T[l].id, why |-> w, dev |-> DevNorm(T[l])])
TSpec == TInit /\ [][TNext]_<<l, bad>>
Report == (l = Len(T) + 1) => PrintT(<<"RESULT", ToJson([n |-> Len(T), bad |-> bad])>>)
=============================================================================
