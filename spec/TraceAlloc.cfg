SPECIFICATION TSpec
CONSTANT MaxReq = 1000
INVARIANT Report
CHECK_DEADLOCK FALSE
