--------------------------- MODULE EraseContract ---------------------------
(* C18, contract of one observation.  A client filled a buffer with the secret S, erased
   n elements of width w at byte offset PAD + off with fill value v, never read the buffer
   again, and an observer outside the optimiser's view copied the buffer afterwards
   (obs, 1-based).  After a successful call exactly the addressed bytes hold the fill
   value (little-endian for the 16/32-bit variants); the bytes in front and behind still
   hold the secret. *)
EXTENDS Naturals, Sequences
PAD == 16
Mod(a, m) == a - m * (a \div m)
S(i) == 1 + Mod((i - 1) * 7, 97)                    \* the secret, by 1-based byte position
FillByte(w, v, j) == Mod(v \div (IF Mod(j, w) = 0 THEN 1 ELSE IF Mod(j, w) = 1 THEN 256 ELSE IF Mod(j, w) = 2 THEN 65536 ELSE 16777216), 256)  \* j = 0-based byte index in the erased area
ZeroFn(fn) == fn \in {2, 5, 6, 7}
Expected(e, i) ==     \* expected value of obs[i]
  LET lo == PAD + e.off + 1
      hi == PAD + e.off + e.n * e.w
  IN IF i >= lo /\ i <= hi THEN (IF ZeroFn(e.fn) THEN 0 ELSE FillByte(e.w, e.v, i - lo)) ELSE S(i)
Why(e) ==
  IF e.have = 2 /\ e.storage = "local" THEN ""          \* the buffer never existed in memory (kept in registers / removed): nothing to erase, nothing to find
  ELSE IF e.have # 1 THEN "ORACLE_no_observation"
  ELSE IF e.rc # 0 THEN "ORACLE_call_failed"
  ELSE LET lo == PAD + e.off + 1
           hi == PAD + e.off + e.n * e.w
       IN IF \E i \in lo..hi : e.obs[i] # Expected(e, i) THEN
               (IF \A i \in lo..hi : e.obs[i] = S(i) THEN "not_erased" ELSE "partly_erased")
          ELSE IF \E i \in (1..(lo - 1)) \cup ((hi + 1)..(hi + PAD)) : e.obs[i] # S(i) THEN "neighbours_changed"
          ELSE ""
=============================================================================
