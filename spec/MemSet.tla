------------------------------- MODULE MemSet -------------------------------
(* Algorithm layer for mem_prim_set (memset_s, memzero_s, every clearing path): a byte loop up
   to the next word boundary (while count is left), the word loop - blocks of 16 words while at
   least 16 remain, then one fall-through block for the last 1..15 - and a byte loop for the
   remaining count & (W - 1) bytes.  TLC runs it for every start alignment and every length in a
   small address space and checks

     SetCorrect   exactly the len addressed bytes hold the value, every other byte is unchanged
                  (C01 at the level of the algorithm: not one byte more);
     WordsAligned every word store is aligned;
     Progress     the block loop always terminates with the word count at 0.

   The constant HeadCount selects how the word count is derived: "code" computes it from what is
   left after the head loop; "fromLen" computes it from the full length before the head loop -
   the seeded change C01-memprimset-misaligned-overrun - and TLC must reject it (self-test).
   Binding to the code: the fill family of GenArena and the seeded sizes / alignments of lib/p2.py
   are executed in guarded memory and judged against MemOps!MemSetOutcomes, whose success template
   is SetCorrect. *)
EXTENDS Naturals, Sequences, TLC
CONSTANTS N, W, B, MaxLen, HeadCount      \* B = words per unrolled block (16 in the code)
VARIABLE m
Mod(a, k) == a - k * (a \div k)
Pre == [i \in 1..N |-> 200 + i]
Init == \E d \in 1..N, len \in 0..MaxLen :
          /\ d + len - 1 <= N
          /\ m = [mem |-> Pre, d |-> d, len0 |-> len, dp |-> d, count |-> len, lcount |-> 0, pc |-> "head", al |-> TRUE]
Fill(mem, p, n) == [i \in 1..N |-> IF i >= p /\ i < p + n THEN 0 ELSE mem[i]]
Step ==
  \/ /\ m.pc = "head"
     /\ IF m.count > 0 /\ Mod(m.dp, W) # 0
        THEN m' = [m EXCEPT !.mem = Fill(m.mem, m.dp, 1), !.dp = @ + 1, !.count = @ - 1]
        ELSE m' = [m EXCEPT !.pc = "words", !.lcount = (IF HeadCount = "code" THEN m.count ELSE m.len0) \div W]
  \/ /\ m.pc = "words"
     /\ IF m.lcount = 0 THEN m' = [m EXCEPT !.pc = "tail", !.count = Mod(m.count, W)]
        ELSE LET k == IF m.lcount >= B THEN B ELSE m.lcount      \* default: a block of B words; otherwise the fall-through block
             IN /\ m.dp + k * W - 1 <= N \/ m' = [m EXCEPT !.pc = "overrun"]
                /\ (m.dp + k * W - 1 <= N) =>
                     m' = [m EXCEPT !.mem = Fill(m.mem, m.dp, k * W), !.dp = @ + k * W, !.lcount = IF m.lcount >= B THEN @ - B ELSE 0,
                                    !.al = @ /\ Mod(m.dp, W) = 0]
  \/ /\ m.pc = "tail"
     /\ IF m.count > 0
        THEN (IF m.dp <= N THEN m' = [m EXCEPT !.mem = Fill(m.mem, m.dp, 1), !.dp = @ + 1, !.count = @ - 1] ELSE m' = [m EXCEPT !.pc = "overrun"])
        ELSE m' = [m EXCEPT !.pc = "done"]
Spec == Init /\ [][Step]_m
SetCorrect == /\ m.pc # "overrun"
              /\ m.pc = "done" => \A i \in 1..N : m.mem[i] = (IF i >= m.d /\ i < m.d + m.len0 THEN 0 ELSE Pre[i])
              /\ \A i \in 1..N : (i < m.d \/ i >= m.d + m.len0) => m.mem[i] = Pre[i]
WordsAligned == m.al
Progress == m.pc = "tail" => m.lcount = 0
=============================================================================
