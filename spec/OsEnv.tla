------------------------------- MODULE OsEnv -------------------------------
(* Contracts of the functions that wrap a libc / operating-system service into the
   bounds-checked interface: strerror_s, asctime_s, ctime_s, getenv_s, gmtime_s,
   localtime_s, gets_s, fopen_s, freopen_s, tmpfile_s.  The text such a function has to deliver is what its standard
   counterpart delivers (recorded next to the call as ref); for asctime the text is also
   defined here (Asctime), and every recorded reference is checked against it.  The _s layer
   is what is specified: which calls are violations, what dest holds afterwards (the text
   and its terminator, nothing stale behind it in the null-slack build; an empty string
   after every failure met with a usable dest), how often the handler runs, and that nothing
   outside dest[0..dmax) is touched.  Why(e) returns "" or the reason, prefixed by the
   properties it violates. *)
EXTENDS Integers, Sequences, TLC
ESNULLP == 400  ESZEROL == 401  ESLEMIN == 402  ESLEMAX == 403  ESNOSPC == 406  ESLAST == 410
RMAX == 4096
Mod(a, m) == a - m * (a \div m)

(* ---- asctime: "Www Mmm dd hh:mm:ss yyyy\n" ---- *)
WD == << <<83,117,110>>, <<77,111,110>>, <<84,117,101>>, <<87,101,100>>, <<84,104,117>>, <<70,114,105>>, <<83,97,116>> >>
MN == << <<74,97,110>>, <<70,101,98>>, <<77,97,114>>, <<65,112,114>>, <<77,97,121>>, <<74,117,110>>,
         <<74,117,108>>, <<65,117,103>>, <<83,101,112>>, <<79,99,116>>, <<78,111,118>>, <<68,101,99>> >>
RECURSIVE Digits(_)
Digits(n) == IF n < 10 THEN <<48 + n>> ELSE Digits(n \div 10) \o <<48 + Mod(n, 10)>>
D2(n) == <<48 + n \div 10, 48 + Mod(n, 10)>>
Pad3(n) == IF n < 10 THEN <<32, 32, 48 + n>> ELSE <<32>> \o D2(n)
Asctime(t) == WD[t.wday + 1] \o <<32>> \o MN[t.mon + 1] \o Pad3(t.mday) \o <<32>> \o D2(t.hour) \o <<58>> \o D2(t.min)
              \o <<58>> \o D2(t.sec) \o <<32>> \o Digits(1900 + t.year) \o <<10>>
TmOf(a) == [sec |-> a[2], min |-> a[3], hour |-> a[4], mday |-> a[5], mon |-> a[6], year |-> a[7], wday |-> a[8], yday |-> a[9], isdst |-> a[10]]
TmLow(t) == t.year < 0 \/ t.mon < 0 \/ t.yday < 0 \/ t.mday < 1 \/ t.wday < 0 \/ t.hour < 0 \/ t.min < 0 \/ t.sec < 0 \/ t.isdst < 0
TmHigh(t) == t.year > 8099 \/ t.mon > 11 \/ t.yday > 365 \/ t.mday > 31 \/ t.wday > 6 \/ t.hour > 23 \/ t.min > 59 \/ t.sec > 60 \/ t.isdst > 1

(* ---- common judgements ---- *)
Usable(e) == e.dnull = 0 /\ e.dmax >= 1 /\ e.dmax <= RMAX
AllZeroFrom(p, k) == \A i \in k..Len(p) : p[i] = 0
HasNul(p) == \E i \in 1..Len(p) : p[i] = 0
\* dest after a failure met with a usable dest: empty (C03/C04)
FailedDest(e) == IF ~Usable(e) THEN "" ELSE IF e.post[1] # 0 THEN "C03,C04:dest_not_emptied_on_failure" ELSE ""
Fail(e, codes, who) ==       \* a violation: one of the codes, one handler call, dest empty
  IF e.rc = 0 THEN "C05:" \o who \o "_accepted"
  ELSE IF codes # {} /\ e.rc \notin codes THEN "C05:" \o who \o "_wrong_code"
  ELSE IF e.hn # 1 THEN "C05:" \o who \o "_handler_calls"
  ELSE FailedDest(e)
\* dest holds exactly text ++ NUL, and in the null-slack build nothing behind it
Holds(e, text) ==
  IF Len(text) + 1 > Len(e.post) THEN "C06:result_does_not_fit_but_success"
  ELSE IF SubSeq(e.post, 1, Len(text)) # text THEN "C06:text_differs_from_standard_function"
  ELSE IF e.post[Len(text) + 1] # 0 THEN "C03:unterminated"
  ELSE IF e.slack = 1 /\ ~AllZeroFrom(e.post, Len(text) + 1) THEN "C08:stale_bytes_behind_terminator"
  ELSE ""
DestViol(e, minmax) ==       \* violations of the dest / dmax constraints; minmax = smallest admissible dmax
  IF e.dnull = 1 THEN {ESNULLP} ELSE IF e.dmax = 0 THEN {ESZEROL, ESLEMIN} ELSE IF e.dmax > RMAX THEN {ESLEMAX} ELSE IF e.dmax < minmax THEN {ESLEMIN} ELSE {}

Dots == <<46, 46, 46>>
WhyStrerror(e) ==
  LET own == e.args[1] >= ESNULLP /\ e.args[1] <= ESLAST        \* the library's own codes: its own texts (no standard reference)
      msg == e.ref
  IN IF DestViol(e, 1) # {} THEN Fail(e, DestViol(e, 1), "bad_dest")
     ELSE IF own THEN (IF e.rc = 0 /\ ~HasNul(e.post) THEN "C03:unterminated" ELSE IF e.rc # 0 THEN FailedDest(e) ELSE "")
     ELSE IF Len(msg) < e.dmax THEN (IF e.rc # 0 THEN "C06:spurious_failure" ELSE IF e.hn # 0 THEN "C05:handler_on_success" ELSE Holds(e, msg))
     ELSE IF e.dmax > 3 THEN      \* documented truncation: the first dmax-4 characters and "..."
          (IF e.hn > 1 THEN "C05:handler_calls" ELSE IF e.rc # 0 /\ e.post[1] = 0 THEN "" ELSE Holds(e, SubSeq(msg, 1, e.dmax - 4) \o Dots))
     ELSE Fail(e, {ESLEMIN}, "too_small")
WhyAsctime(e) ==
  LET t == TmOf(e.args) IN
  IF DestViol(e, 26) # {} THEN Fail(e, DestViol(e, 26), "bad_dest")
  ELSE IF e.args[1] = 1 THEN Fail(e, {ESNULLP}, "null_tm")
  ELSE IF TmLow(t) \/ TmHigh(t) THEN Fail(e, {ESLEMIN, ESLEMAX}, "tm_out_of_range")
  ELSE IF e.refn < 0 \/ e.ref # Asctime(t) THEN "ORACLE:asctime_reference_differs_from_definition"
  ELSE IF Len(e.ref) >= e.dmax THEN Fail(e, {ESNOSPC}, "no_room")
  ELSE IF e.rc # 0 THEN "C06:spurious_failure" ELSE IF e.hn # 0 THEN "C05:handler_on_success" ELSE Holds(e, e.ref)
WhyCtime(e) ==
  IF DestViol(e, 26) # {} THEN Fail(e, DestViol(e, 26), "bad_dest")
  ELSE IF e.args[1] = 1 THEN Fail(e, {ESNULLP}, "null_timer")
  ELSE IF e.args[2] < 0 THEN Fail(e, {ESLEMIN}, "negative_time")
  ELSE IF e.args[2] = 2000000000 THEN Fail(e, {ESLEMAX}, "time_beyond_limit")
  ELSE IF e.refn < 0 THEN (IF e.rc = 0 THEN "C06:unrepresentable_time_accepted" ELSE IF e.hn > 1 THEN "C05:handler_calls" ELSE FailedDest(e))   \* libc cannot render it (year > 9999): a failure, not a constraint violation
  ELSE IF Len(e.ref) >= e.dmax THEN Fail(e, {ESNOSPC}, "no_room")
  ELSE IF e.rc # 0 THEN "C06:spurious_failure" ELSE IF e.hn # 0 THEN "C05:handler_on_success" ELSE Holds(e, e.ref)
WhyGetenv(e) ==
  LET lenOK(v) == e.args[1] = 1 \/ e.len = v IN
  IF e.dnull = 1 /\ e.dmax # 0 THEN Fail(e, {ESNULLP}, "null_dest_with_dmax")
  ELSE IF e.dnull = 0 /\ e.dmax > RMAX THEN Fail(e, {ESLEMAX}, "bad_dest")
  ELSE IF e.args[2] = 4 THEN Fail(e, {ESNULLP}, "null_name")
  ELSE IF e.refn < 0 THEN       \* not in the environment: not a violation, a non-zero return; dest empty, *len = 0
       (IF e.rc = 0 THEN "C06:missing_variable_found" ELSE IF e.hn # 0 THEN "C05:handler_without_violation" ELSE IF ~lenOK(0) THEN "C06:len" ELSE FailedDest(e))
  ELSE IF e.dmax = 0 THEN        \* size query (dest may be null or not)
       (IF e.rc # 0 THEN "C06:size_query_failed" ELSE IF e.hn # 0 THEN "C05:handler_on_success" ELSE IF ~lenOK(e.refn) THEN "C06:len" ELSE "")
  ELSE IF e.refn >= e.dmax THEN Fail(e, {ESNOSPC}, "no_room")
  ELSE IF e.rc # 0 THEN "C06:spurious_failure" ELSE IF e.hn # 0 THEN "C05:handler_on_success" ELSE IF ~lenOK(e.refn) THEN "C06:len" ELSE Holds(e, e.ref)
WhyTime(e) ==     \* gmtime_s / localtime_s: args = tnull, destnull, t
  IF e.args[1] = 1 \/ e.args[2] = 1 THEN (IF e.rc = 0 THEN "C05:null_accepted" ELSE IF e.hn # 1 THEN "C05:handler_calls" ELSE "")
  ELSE IF e.args[3] < 0 \/ e.args[3] = 2000000000 THEN (IF e.rc = 0 THEN "C05:time_out_of_range_accepted" ELSE IF e.hn # 1 THEN "C05:handler_calls" ELSE "")
  ELSE IF e.rc # 0 THEN "C06:spurious_failure" ELSE IF e.hn # 0 THEN "C05:handler_on_success" ELSE IF e.same # 1 THEN "C06:broken_down_time_differs" ELSE ""
RECURSIVE UpTo(_, _, _)
UpTo(s, i, c) == IF i > Len(s) \/ s[i] = c THEN <<>> ELSE <<s[i]>> \o UpTo(s, i + 1, c)
WhyGets(e) ==     \* args = nin, bytes...
  LET inp == SubSeq(e.args, 2, 1 + e.args[1])
      line == UpTo(inp, 1, 10)
  IN IF DestViol(e, 1) # {} THEN (IF e.rc = 0 THEN "C05:bad_dest_accepted" ELSE IF e.hn # 1 THEN "C05:handler_calls" ELSE "")
     ELSE IF inp = <<>> THEN (IF e.rc = 0 THEN "C06:end_of_file_returned_a_line" ELSE FailedDest(e))
     ELSE IF Len(line) < e.dmax THEN (IF e.rc # 0 THEN "C06:spurious_failure" ELSE IF e.hn # 0 THEN "C05:handler_on_success" ELSE Holds(e, line))
     ELSE Fail(e, {}, "line_too_long")

(* fopen_s / freopen_s / tmpfile_s: the stream pointer object is the result.  e.sp: 0 null, 1 a stream, 2 left as it was;
   e.referr: errno of the standard function with the same arguments (0: it succeeds; -1: not called).  Documented: a null
   argument is a violation (ESNULLP, one handler call), nothing is opened then, and whenever no file was opened the
   pointer object - if there is one - is set to null.  A file that cannot be opened is a failure, not a violation: the
   error code is returned (the library also passes it to the handler: admitted, at most once and with that code). *)
WhyOpen(e, spnull, anynull, which) ==
  IF spnull THEN (IF e.rc # ESNULLP THEN "C05:null_stream_pointer_wrong_code" ELSE IF e.hn # 1 THEN "C05:null_stream_pointer_handler_calls" ELSE "")
  ELSE IF anynull THEN
       (IF e.rc # ESNULLP THEN "C05:null_argument_wrong_code" ELSE IF e.hn # 1 THEN "C05:null_argument_handler_calls"
        ELSE IF e.sp # 0 THEN "C04:stream_pointer_not_nulled_on_violation" ELSE "")
  ELSE IF e.referr = 0 THEN
       (IF e.rc # 0 THEN "C06:spurious_failure" ELSE IF e.hn # 0 THEN "C05:handler_on_success" ELSE IF e.sp # 1 THEN "C06:no_stream_on_success" ELSE "")
  ELSE (IF e.rc = 0 THEN "C06:failure_of_the_standard_function_reported_as_success"
        ELSE IF e.referr > 0 /\ e.rc # e.referr THEN "C05:error_code_differs_from_errno"
        ELSE IF e.hn > 1 \/ (e.hn = 1 /\ e.h[1] # e.rc) THEN "C05:handler_calls"
        ELSE IF e.sp # 0 THEN "C04:stream_pointer_not_nulled_on_failure" ELSE "")
WhyFopen(e) == WhyOpen(e, e.args[1] = 1, e.args[2] = 1 \/ e.args[3] = 1, e.args[4])
WhyFreopen(e) == WhyOpen(e, e.args[1] = 1, e.args[3] = 1 \/ e.args[4] = 1, e.args[5])      \* a null filename is the mode-change form
WhyTmpfile(e) == IF e.args[1] = 1 THEN (IF e.rc # ESNULLP THEN "C05:null_stream_pointer_wrong_code" ELSE IF e.hn # 1 THEN "C05:null_stream_pointer_handler_calls" ELSE "")
                 ELSE IF e.rc = 0 THEN (IF e.hn # 0 THEN "C05:handler_on_success" ELSE IF e.sp # 1 THEN "C06:no_stream_on_success" ELSE "")
                 ELSE (IF e.hn > 1 \/ (e.hn = 1 /\ e.h[1] # e.rc) THEN "C05:handler_calls" ELSE IF e.sp # 0 THEN "C04:stream_pointer_not_nulled_on_failure" ELSE "")

Why(e) ==
  IF e.fault = "w" THEN "C01:write_outside_dest" ELSE IF e.fault = "r" THEN "C02:read_fault" ELSE IF e.fault # "none" THEN "C06:fault_" \o e.fault
  ELSE IF ~e.frame_ok THEN "C01:write_in_front_of_dest"
  ELSE CASE e.fn = 1 -> WhyStrerror(e) [] e.fn = 2 -> WhyAsctime(e) [] e.fn = 3 -> WhyCtime(e) [] e.fn = 4 -> WhyGetenv(e)
         [] e.fn \in {5, 6} -> WhyTime(e) [] e.fn = 7 -> WhyGets(e)
         [] e.fn = 8 -> WhyFopen(e) [] e.fn = 9 -> WhyFreopen(e) [] e.fn = 10 -> WhyTmpfile(e) [] OTHER -> "ORACLE:unknown_function"
=============================================================================
