------------------------------- MODULE Base -------------------------------
(* Vocabulary shared by every contract module of the safeclib specification:
   error codes, abstract sizes, the arena, outcome templates and the single
   comparator (Matches) used both by the model checker and by trace validation. *)
EXTENDS Integers, Sequences, FiniteSets, TLC

EOK == 0
ESNULLP == 400  ESZEROL == 401  ESLEMIN == 402  ESLEMAX == 403  ESOVRLP == 404
ESEMPTY == 405  ESNOSPC == 406  ESUNTERM == 407 ESNODIFF == 408 ESNOTFND == 409
ESLEWRNG == 410
EOVERFLOW == 75 EINVAL == 22    EILSEQ == 84    ERANGE == 34   EBADF == 9

HUGE  == -1          \* abstract size "above the RSIZE limit of the family"
NULLP == 0           \* arena offsets are 1..N
UNK   == -1          \* object size not known to the library
NOSTAT == -7777        \* the function has no status channel (returns a count / bool / pointer only)
AnyV  == -424242     \* "unconstrained" marker in ret / o1 sets

Min(a, b) == IF a < b THEN a ELSE b
Max(a, b) == IF a > b THEN a ELSE b
Rng(lo, n) == lo .. (lo + n - 1)
In(v, S) == AnyV \in S \/ v \in S

(* number of non-NUL elements of a starting at p, looking at no more than lim
   elements and never beyond the arena; lim when no NUL is seen. *)
RECURSIVE ScanFrom(_, _, _, _)
ScanFrom(a, p, lim, i) ==
  IF i >= lim THEN lim
  ELSE IF p + i > Len(a) \/ p + i < 1 THEN lim
  ELSE IF a[p + i] = 0 THEN i
  ELSE ScanFrom(a, p, lim, i + 1)
ScanLen(a, p, lim) == IF lim <= 0 THEN 0 ELSE ScanFrom(a, p, lim, 0)

(* ---- template cells.  p = the properties a mismatch in this cell violates ---- *)
Cell(k, v, p) == [k |-> k, v |-> v, p |-> p]
Same(p)  == Cell("same", 0, p)
Ex(v, p) == Cell("exact", v, p)
OZ(p)    == Cell("oz", 0, p)
AnyC     == Cell("any", 0, {})

CellOK(t, pre, post) == CASE t.k = "exact" -> post = t.v
                          [] t.k = "same"  -> post = pre
                          [] t.k = "oz"    -> post = pre \/ post = 0
                          [] t.k = "any"   -> TRUE
IsZeroCell(t, pre) == (t.k = "exact" /\ t.v = 0) \/ (t.k \in {"same", "oz"} /\ pre = 0)

(* template over the whole arena: cells in DOMAIN over get over[i], all others
   must keep their value; a change there is a write outside the destination (C01). *)
Tmpl(a, over) == [i \in 1..Len(a) |-> IF i \in DOMAIN over THEN over[i] ELSE Same({"C01"})]
Untouched(a)  == Tmpl(a, <<>>)

(* ---- outcomes ---- *)
Out(cls, rcs, hs, mem) ==
  [cls |-> cls, rc |-> rcs, h |-> hs, mem |-> mem, ret |-> {AnyV}, o1 |-> {AnyV},
   rtag |-> {"C06"}, fault |-> "none", foff |-> {AnyV}, sg |-> 2]
OkOut(mem)        == Out("ok", {EOK}, {<<>>}, mem)
StatusOut(rc, mem) == Out("ok", {rc}, {<<>>}, mem)          \* plain status, no handler
ErrOut(c, mem)    == Out("err", {c}, {<<c>>}, mem)
Errs(codes, mem)  == {ErrOut(c, mem) : c \in codes}
WithRet(o, S)     == [o EXCEPT !.ret = S]
WithO1(o, S)      == [o EXCEPT !.o1 = S]
WithRtag(o, T)    == [o EXCEPT !.rtag = T]
WithFault(o, k, offs) == [o EXCEPT !.fault = k, !.foff = offs]

(* ---- the comparator ---- *)
MisCells(e, o) == {i \in 1..Len(e.pre) : ~CellOK(o.mem[i], e.pre[i], e.post[i])}
HOK(e, o)    == e.h \in o.h /\ e.hn = Len(e.h)
Sgn(x) == IF x < 0 THEN -1 ELSE IF x > 0 THEN 1 ELSE 0
RetOK(e, o)  == In(e.ret, o.ret) /\ In(e.o1, o.o1) /\ (o.sg = 2 \/ Sgn(e.o1) = o.sg)     \* sg: required sign of the comparison result
FaultOK(e, o) == e.fault = o.fault /\ (e.fault = "none" \/ In(e.foff, o.foff))
Matches(e, o) == /\ FaultOK(e, o) /\ e.frame_ok /\ e.rc \in o.rc /\ HOK(e, o) /\ RetOK(e, o)
                 /\ MisCells(e, o) = {}

(* ---- common argument checks ---- *)
DestUsable(e) == e.d # NULLP /\ e.dmax # 0 /\ e.dmax # HUGE /\ (e.dbos = UNK \/ e.dmax <= e.dbos)

(* violations of the common destination constraints, with their documented codes *)
DestViol(e) == {c \in {ESNULLP} : e.d = NULLP}
          \cup {c \in {ESZEROL} : e.dmax = 0}
          \cup {c \in {ESLEMAX} : e.dmax = HUGE}
          \cup {c \in {EOVERFLOW} : e.dbos # UNK /\ (e.dmax = HUGE \/ e.dmax > e.dbos)}     \* (an oversize dmax also exceeds a known object: either code)

(* what may happen to memory when a destination constraint is violated: nothing is
   touched, except that with a known object size smaller than dmax the library may
   clear (part of) the object it knows about. *)
DestViolMem(e) ==
  IF e.d # NULLP /\ e.dbos # UNK /\ e.dbos > 0 /\ e.dmax # 0
  THEN Tmpl(e.pre, [i \in Rng(e.d, e.dbos) |-> OZ({"C01"})])
  ELSE Untouched(e.pre)

(* dest cleared after a failure that is met when dest/dmax are usable.
   full = TRUE: the "Z" class (all dmax elements zero in the null-slack build)
   full = FALSE: the "z" class (first element zero, others original or zero) *)
ClearedMem(e, full) ==
  LET ext == IF e.dbos # UNK /\ e.dbos > e.dmax THEN e.dbos ELSE e.dmax   \* a larger known object may be cleared as a whole
  IN Tmpl(e.pre, [i \in Rng(e.d, ext) |->
        IF i = e.d THEN Ex(0, {"C04"})
        ELSE IF i >= e.d + e.dmax THEN OZ({})
        ELSE IF e.slack = 1 THEN (IF full THEN Ex(0, {"C04"}) ELSE OZ({"C04"}))
        ELSE AnyC])
=============================================================================
