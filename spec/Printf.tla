------------------------------- MODULE Printf -------------------------------
(* The formatted-output contract: a grammar-accurate parser for printf (and scanf)
   format strings, the C standard's layout rules for the conversions the library
   documents (d i u x X o c s % with flags, width, precision and the length modifiers;
   lc ls; f F e E g G), and the judge for recorded executions of the printf_s family.
   Integers wider than 31 bits are carried as four 16-bit limbs; digit strings are
   sequences, never numbers. *)
EXTENDS Integers, Sequences, FiniteSets, TLC

ESNULLP == 400  ESZEROL == 401  ESLEMAX == 403  ESNOSPC == 406  EINVAL == 22  EOVERFLOW == 75 EILSEQ == 84
HUGE == -1
Min(a, b) == IF a < b THEN a ELSE b
Max(a, b) == IF a > b THEN a ELSE b
Rep(c, n) == [i \in 1..n |-> c]
Mod(a, b) == a - b * (a \div b)

(* ------------------------------------------------------------------ parser *)
IsDigit(c) == c >= 48 /\ c <= 57
IsFlag(c) == c \in {45, 48, 43, 32, 35, 39, 73}         \* - 0 + space #  and the two flags glibc adds: ' (grouping) and I (locale digits)
At(f, i) == IF i >= 1 /\ i <= Len(f) THEN f[i] ELSE 0

RECURSIVE SkipFlags(_, _)
SkipFlags(f, i) == IF IsFlag(At(f, i)) THEN SkipFlags(f, i + 1) ELSE i
RECURSIVE SkipDigits(_, _)
SkipDigits(f, i) == IF IsDigit(At(f, i)) THEN SkipDigits(f, i + 1) ELSE i
RECURSIVE NumVal(_, _, _, _)
NumVal(f, i, j, acc) == IF i >= j THEN acc ELSE NumVal(f, i + 1, j, IF acc > 100000 THEN acc ELSE acc * 10 + (f[i] - 48))

(* length modifier starting at i: <<name, next index>> *)
LenMod(f, i) ==
  LET c == At(f, i)  c2 == At(f, i + 1) IN
  IF c = 104 THEN (IF c2 = 104 THEN <<"hh", i + 2>> ELSE <<"h", i + 1>>)
  ELSE IF c = 108 THEN (IF c2 = 108 THEN <<"ll", i + 2>> ELSE <<"l", i + 1>>)
  ELSE IF c = 106 THEN <<"j", i + 1>>
  ELSE IF c = 122 THEN <<"z", i + 1>>
  ELSE IF c = 116 THEN <<"t", i + 1>>
  ELSE IF c = 76 THEN <<"L", i + 1>>
  ELSE IF c = 90 THEN <<"Z", i + 1>>       \* glibc: the old spelling of z
  ELSE IF c = 113 THEN <<"q", i + 1>>      \* glibc / BSD: quad = ll
  ELSE <<"", i>>

(* one printf directive starting at the '%' at index i *)
\* POSIX numbered arguments: "%N$..." right behind the '%', "*N$" for a width or precision taken from an argument
\* (the wide family hands its format to libc, which implements them; the narrow formatter refuses '$')
PosEnd(f, i) == LET j == SkipDigits(f, i) IN IF j > i /\ At(f, j) = 36 THEN j + 1 ELSE i       \* index behind "N$" if there is one at i
Directive(f, i) ==
  LET a  == PosEnd(f, i + 1)
      b  == SkipFlags(f, a)
      fl == {f[k] : k \in a..(b - 1)}
      wstar == At(f, b) = 42
      c  == IF wstar THEN PosEnd(f, b + 1) ELSE SkipDigits(f, b)
      w  == IF wstar THEN -2 ELSE IF c = b THEN -1 ELSE NumVal(f, b, c, 0)
      hasp == At(f, c) = 46
      pstar == hasp /\ At(f, c + 1) = 42
      d  == IF ~hasp THEN c ELSE IF pstar THEN PosEnd(f, c + 2) ELSE SkipDigits(f, c + 1)
      p  == IF ~hasp THEN -1 ELSE IF pstar THEN -2 ELSE NumVal(f, c + 1, d, 0)
      lm == LenMod(f, d)
      cv == At(f, lm[2])
  IN [k |-> "dir", fl |-> fl, w |-> w, p |-> p, len |-> lm[1], cv |-> cv, next |-> lm[2] + 1]

RECURSIVE ParseFrom(_, _)
ParseFrom(f, i) ==
  IF i > Len(f) THEN <<>>
  ELSE IF f[i] # 37 THEN <<[k |-> "lit", c |-> f[i]]>> \o ParseFrom(f, i + 1)
  ELSE LET dr == Directive(f, i) IN <<dr>> \o ParseFrom(f, dr.next)
Parse(f) == ParseFrom(f, 1)

IsNConv(it) == it.k = "dir" /\ it.cv = 110
HasNConv(f) == \E i \in 1..Len(Parse(f)) : IsNConv(Parse(f)[i])

(* scanf: %[*][width][length]conv, with the scan set %[...] *)
RECURSIVE SkipSet(_, _)
SkipSet(f, i) == IF i > Len(f) THEN i ELSE IF f[i] = 93 THEN i + 1 ELSE SkipSet(f, i + 1)
RECURSIVE SkipScanFlags(_, _)
SkipScanFlags(f, i) == IF At(f, i) \in {42, 39, 73} THEN SkipScanFlags(f, i + 1) ELSE i       \* '*' (suppression), and glibc's ' and I
ScanDirective(f, i) ==
  LET a == PosEnd(f, i + 1)
      b == SkipScanFlags(f, a)
      sup == \E k \in a..(b - 1) : f[k] = 42
      c0 == SkipDigits(f, b)
      c == IF At(f, c0) = 109 THEN c0 + 1 ELSE c0               \* glibc / POSIX 2008: m, the result is allocated
      lm == LenMod(f, c)
      cv == At(f, lm[2])
      nx == IF cv = 91 THEN (LET s0 == lm[2] + 1
                                 s1 == IF At(f, s0) = 94 THEN s0 + 1 ELSE s0
                                 s2 == IF At(f, s1) = 93 THEN s1 + 1 ELSE s1
                             IN SkipSet(f, s2))
            ELSE lm[2] + 1
  IN [k |-> "dir", sup |-> sup, len |-> lm[1], cv |-> cv, next |-> nx]
RECURSIVE ScanParseFrom(_, _)
ScanParseFrom(f, i) ==
  IF i > Len(f) THEN <<>>
  ELSE IF f[i] # 37 THEN <<[k |-> "lit", c |-> f[i]]>> \o ScanParseFrom(f, i + 1)
  ELSE LET dr == ScanDirective(f, i) IN <<dr>> \o ScanParseFrom(f, dr.next)
ScanHasSuppressedN(f) == LET P == ScanParseFrom(f, 1) IN \E i \in 1..Len(P) : P[i].k = "dir" /\ P[i].cv = 110 /\ P[i].sup
ScanHasNConv(f) == LET P == ScanParseFrom(f, 1) IN \E i \in 1..Len(P) : P[i].k = "dir" /\ P[i].cv = 110 /\ ~P[i].sup

(* ------------------------------------------------------------------ limbs *)
(* a 64-bit pattern is <<l0, l1, l2, l3>>, l0 least significant, each 0..65535 *)
LimbZero == <<0, 0, 0, 0>>
IsZeroL(x) == x = LimbZero
(* keep the low `bits` bits *)
MaskL(x, bits) ==
  CASE bits = 8  -> <<Mod(x[1], 256), 0, 0, 0>>
    [] bits = 16 -> <<x[1], 0, 0, 0>>
    [] bits = 32 -> <<x[1], x[2], 0, 0>>
    [] OTHER     -> x
TopBit(x, bits) ==
  CASE bits = 8  -> Mod(x[1], 256) >= 128
    [] bits = 16 -> x[1] >= 32768
    [] bits = 32 -> x[2] >= 32768
    [] OTHER     -> x[4] >= 32768
(* two's complement negation within 64 bits *)
NegL(x) ==
  LET n1 == 65535 - x[1] + 1
      c1 == n1 \div 65536
      n2 == 65535 - x[2] + c1
      c2 == n2 \div 65536
      n3 == 65535 - x[3] + c2
      c3 == n3 \div 65536
      n4 == 65535 - x[4] + c3
  IN <<Mod(n1, 65536), Mod(n2, 65536), Mod(n3, 65536), Mod(n4, 65536)>>
(* sign-extend the low `bits` bits to 64 *)
SextL(x, bits) ==
  IF ~TopBit(x, bits) THEN MaskL(x, bits)
  ELSE CASE bits = 8  -> <<Mod(x[1], 256) + 65280, 65535, 65535, 65535>>
         [] bits = 16 -> <<x[1], 65535, 65535, 65535>>
         [] bits = 32 -> <<x[1], x[2], 65535, 65535>>
         [] OTHER     -> x
(* divide by a small number: <<quotient limbs, remainder>> *)
DivL(x, b) ==
  LET r4 == x[4]            q4 == r4 \div b   m4 == Mod(r4, b)
      r3 == m4 * 65536 + x[3]   q3 == r3 \div b   m3 == Mod(r3, b)
      r2 == m3 * 65536 + x[2]   q2 == r2 \div b   m2 == Mod(r2, b)
      r1 == m2 * 65536 + x[1]   q1 == r1 \div b   m1 == Mod(r1, b)
  IN <<<<q1, q2, q3, q4>>, m1>>
RECURSIVE DigitsL(_, _)
DigitsL(x, b) == IF IsZeroL(x) THEN <<>> ELSE LET dv == DivL(x, b) IN Append(DigitsL(dv[1], b), dv[2])
Digits(x, b) == IF IsZeroL(x) THEN <<0>> ELSE DigitsL(x, b)

BitsOf(len) == CASE len = "hh" -> 8 [] len = "h" -> 16 [] len = "" -> 32 [] OTHER -> 64

(* ------------------------------------------------------------------ integer conversions *)
DigitChar(d, upper) == IF d < 10 THEN 48 + d ELSE (IF upper THEN 55 ELSE 87) + d
(* it: directive with resolved width w (>= -1) and precision p (>= -1); v: limbs of the argument *)
IntText(it, w, p, v) ==
  LET signed == it.cv \in {100, 105}              \* d i
      hex    == it.cv \in {120, 88}
      oct    == it.cv = 111
      upper  == it.cv = 88
      bits   == BitsOf(it.len)
      sv     == IF signed THEN SextL(v, bits) ELSE MaskL(v, bits)
      neg    == signed /\ TopBit(sv, 64)
      mag    == IF neg THEN NegL(sv) ELSE sv
      base   == IF hex THEN 16 ELSE IF oct THEN 8 ELSE 10
      dg     == Digits(mag, base)
      zero   == IsZeroL(mag)
      raw    == IF zero /\ p = 0 THEN <<>> ELSE [i \in 1..Len(dg) |-> DigitChar(dg[i], upper)]
      prec0  == IF p >= 0 THEN p ELSE 1
      d1     == Rep(48, Max(0, prec0 - Len(raw))) \o raw
      d2     == IF oct /\ 35 \in it.fl /\ (d1 = <<>> \/ d1[1] # 48) THEN <<48>> \o d1 ELSE d1
      prefix == IF signed THEN (IF neg THEN <<45>> ELSE IF 43 \in it.fl THEN <<43>> ELSE IF 32 \in it.fl THEN <<32>> ELSE <<>>)
                ELSE IF hex /\ 35 \in it.fl /\ ~zero THEN <<48, IF upper THEN 88 ELSE 120>> ELSE <<>>
      body   == Len(prefix) + Len(d2)
      pad    == Max(0, w - body)
  IN IF 45 \in it.fl THEN prefix \o d2 \o Rep(32, pad)
     ELSE IF 48 \in it.fl /\ p < 0 THEN prefix \o Rep(48, pad) \o d2
     ELSE Rep(32, pad) \o prefix \o d2

PadText(it, w, body) ==
  LET pad == Max(0, w - Len(body)) IN
  IF 45 \in it.fl THEN body \o Rep(32, pad) ELSE Rep(32, pad) \o body

(* UTF-8 encoding of a code point (locale C.UTF-8); <<>> when not encodable *)
Utf8(cp) ==
  IF cp < 0 THEN <<>>
  ELSE IF cp < 128 THEN <<cp>>
  ELSE IF cp < 2048 THEN <<192 + cp \div 64, 128 + Mod(cp, 64)>>
  ELSE IF cp >= 55296 /\ cp <= 57343 THEN <<>>
  ELSE IF cp < 65536 THEN <<224 + cp \div 4096, 128 + Mod(cp \div 64, 64), 128 + Mod(cp, 64)>>
  ELSE IF cp <= 1114111 THEN <<240 + cp \div 262144, 128 + Mod(cp \div 4096, 64), 128 + Mod(cp \div 64, 64), 128 + Mod(cp, 64)>>
  ELSE <<>>
WcBytes(cp, loc) == IF loc = 1 THEN Utf8(cp) ELSE IF cp >= 0 /\ cp < 128 THEN <<cp>> ELSE <<>>
RECURSIVE WcsBytes(_, _, _)
(* multibyte form of a wide string, whole characters only, at most lim bytes (lim < 0: no limit);
   <<-1>> marks an encoding error *)
WcsBytes(ws, loc, lim) ==
  IF ws = <<>> \/ lim = 0 THEN <<>>
  ELSE LET b == WcBytes(ws[1], loc) IN
       IF ws[1] = 0 THEN <<>>
       ELSE IF b = <<>> THEN <<-1>>
       ELSE IF lim >= 0 /\ Len(b) > lim THEN <<>>
       ELSE LET rest == WcsBytes(Tail(ws), loc, IF lim < 0 THEN lim ELSE lim - Len(b)) IN
            IF rest = <<-1>> THEN <<-1>> ELSE b \o rest

(* ------------------------------------------------------------------ floating conversions *)
(* x = [cls, neg, dig, e10]: value = 0.d1 d2 d3... * 10^(e10+1), i.e. d1.d2d3... * 10^e10 *)
RECURSIVE IncDigits(_)
IncDigits(d) == IF d = <<>> THEN <<1>>
                ELSE IF d[Len(d)] < 9 THEN [d EXCEPT ![Len(d)] = @ + 1]
                ELSE Append(IncDigits(SubSeq(d, 1, Len(d) - 1)), 0)
DigAt(x, k) == IF k >= 1 /\ k <= Len(x.dig) THEN x.dig[k] ELSE 0
(* digits of |x| from the 10^hi position down to the 10^lo position (hi >= lo), truncated *)
Slice(x, hi, lo) == [j \in 1..(hi - lo + 1) |-> DigAt(x, x.e10 - (hi - (j - 1)) + 1)]
TailZero(x, lo) == \A k \in 1..Len(x.dig) : (x.e10 - k + 1 < lo) => x.dig[k] = 0   \* nothing below position lo
SignPrefix(it, neg) == IF neg THEN <<45>> ELSE IF 43 \in it.fl THEN <<43>> ELSE IF 32 \in it.fl THEN <<32>> ELSE <<>>
NumPad(it, w, prefix, body) ==
  LET pad == Max(0, w - Len(prefix) - Len(body)) IN
  IF 45 \in it.fl THEN prefix \o body \o Rep(32, pad)
  ELSE IF 48 \in it.fl THEN prefix \o Rep(48, pad) \o body
  ELSE Rep(32, pad) \o prefix \o body
DigChars(d) == [i \in 1..Len(d) |-> 48 + d[i]]
StripLeadZeros(d) == IF Len(d) > 1 /\ d[1] = 0 THEN SubSeq(d, 2, Len(d)) ELSE d
(* %f body for an integer digit string d scaled by 10^-p *)
FixedBody(it, d0, p) ==
  LET d == IF Len(d0) <= p THEN Rep(0, p + 1 - Len(d0)) \o d0 ELSE d0
      ip == SubSeq(d, 1, Len(d) - p)
      fp == SubSeq(d, Len(d) - p + 1, Len(d))
  IN DigChars(ip) \o (IF p > 0 \/ 35 \in it.fl THEN <<46>> ELSE <<>>) \o DigChars(fp)
RECURSIVE DecChars(_)
DecChars(n) == IF n < 10 THEN <<48 + n>> ELSE Append(DecChars(n \div 10), 48 + Mod(n, 10))
ExpDigits(e) == LET a == IF e < 0 THEN -e ELSE e IN
                (IF e < 0 THEN <<45>> ELSE <<43>>) \o (IF a < 10 THEN <<48>> \o DecChars(a) ELSE DecChars(a))     \* at least two digits
(* candidate renderings of a finite x in %f with precision p: value within one unit of the last digit *)
FixedCands(it, w, p, x) ==
  LET hi == Max(x.e10, 0)
      t  == StripLeadZeros(Slice(x, hi, -p))                 \* truncated toward zero
      up == StripLeadZeros(IncDigits(t))
      dn == IF TailZero(x, -p) /\ \E i \in 1..Len(t) : t[i] # 0 THEN {t} ELSE {}
      isz(d) == \A i \in 1..Len(d) : d[i] = 0
  IN {NumPad(it, w, SignPrefix(it, x.neg), FixedBody(it, d, p)) : d \in {t, up}}
(* %e with precision p *)
ExpBody(it, d, e, p, upper) ==
  <<48 + d[1]>> \o (IF p > 0 \/ 35 \in it.fl THEN <<46>> ELSE <<>>) \o DigChars(SubSeq(d, 2, Len(d)))
     \o <<IF upper THEN 69 ELSE 101>> \o ExpDigits(e)
ExpCands(it, w, p, x, upper) ==
  IF x.cls = "zero" THEN {NumPad(it, w, SignPrefix(it, x.neg), ExpBody(it, Rep(0, p + 1), 0, p, upper))}
  ELSE LET t == [j \in 1..(p + 1) |-> DigAt(x, j)]
           u0 == IncDigits(t)
           ovf == Len(u0) > p + 1
           u == IF ovf THEN SubSeq(u0, 1, p + 1) ELSE u0
       IN {NumPad(it, w, SignPrefix(it, x.neg), ExpBody(it, t, x.e10, p, upper)),
           NumPad(it, w, SignPrefix(it, x.neg), ExpBody(it, u, IF ovf THEN x.e10 + 1 ELSE x.e10, p, upper))}
InfNan(it, w, x, upper) ==
  LET s == IF x.cls = "inf" THEN (IF upper THEN <<73, 78, 70>> ELSE <<105, 110, 102>>) ELSE (IF upper THEN <<78, 65, 78>> ELSE <<110, 97, 110>>)
      pre == SignPrefix(it, x.neg)
      pad == Max(0, w - Len(pre) - 3)
  IN IF 45 \in it.fl THEN pre \o s \o Rep(32, pad) ELSE Rep(32, pad) \o pre \o s
FloatCands(it, w, p0, x) ==
  LET upper == it.cv \in {70, 69, 71}
      p == IF p0 < 0 THEN 6 ELSE p0
  IN IF x.cls = "inf" THEN {InfNan(it, w, x, upper)}
     ELSE IF x.cls = "nan" THEN    \* the sign of a NaN is not a value: any sign presentation is admitted
          {InfNan(it, w, x, upper), InfNan(it, w, [x EXCEPT !.neg = ~x.neg], upper), InfNan([it EXCEPT !.fl = @ \ {43, 32}], w, [x EXCEPT !.neg = FALSE], upper)}
     ELSE IF it.cv \in {102, 70} THEN FixedCands(it, w, p, x)
     ELSE IF it.cv \in {101, 69} THEN ExpCands(it, w, p, x, upper)
     ELSE {}        \* g G a A: layout not modelled here (judged against libc's text, see PrintfJudge)

(* ------------------------------------------------------------------ rendering a whole format *)
(* result: [ok, texts (set of candidate texts), err (code), n (arguments consumed)] *)
IntConvs == {100, 105, 117, 120, 88, 111}
FloatConvs == {102, 70, 101, 69, 103, 71, 97, 65}
ArgInt(a) == a.t = "i"
LimbToInt(v) == IF v[2] = 0 /\ v[3] = 0 /\ v[4] = 0 THEN v[1]
                ELSE IF v[4] = 65535 /\ v[3] = 65535 /\ v[2] = 65535 /\ v[1] >= 32768 THEN v[1] - 65536 ELSE 999999
LimbToInt32(v) == IF v[2] < 32768 THEN (IF v[2] < 16384 THEN v[2] * 65536 + v[1] ELSE 1073741824)
                  ELSE -((65535 - v[2]) * 65536 + (65536 - v[1]))

RECURSIVE Render(_, _, _, _)
Render(items, args, loc, acc) ==
  IF items = <<>> THEN [ok |-> TRUE, texts |-> acc, err |-> 0]
  ELSE
   LET it == Head(items) rest == Tail(items)
       cat(S) == {a \o b : a \in acc, b \in S}
   IN IF it.k = "lit" THEN Render(rest, args, loc, cat({<<it.c>>}))
      ELSE
       LET a1 == IF it.w = -2 THEN Tail(args) ELSE args
           w0 == IF it.w = -2 THEN (IF args # <<>> /\ ArgInt(args[1]) THEN LimbToInt32(args[1].limbs) ELSE 0) ELSE it.w
           itw == IF w0 < -1 THEN [it EXCEPT !.fl = @ \cup {45}] ELSE it          \* negative * width: left-justify
           w == IF w0 < -1 THEN -w0 ELSE w0
           a2 == IF it.p = -2 THEN Tail(a1) ELSE a1
           p0 == IF it.p = -2 THEN (IF a1 # <<>> /\ ArgInt(a1[1]) THEN LimbToInt32(a1[1].limbs) ELSE 0) ELSE it.p
           p == IF p0 < -1 THEN -1 ELSE p0                                       \* negative * precision: as if omitted
       IN IF it.cv = 37 THEN Render(rest, a2, loc, cat({<<37>>}))
          ELSE IF it.cv = 110 THEN [ok |-> FALSE, texts |-> acc, err |-> EINVAL]
          ELSE IF a2 = <<>> THEN [ok |-> FALSE, texts |-> acc, err |-> -2]          \* malformed case: no argument
          ELSE LET a == a2[1] IN
            IF it.cv \in IntConvs THEN
               (IF it.len = "L" \/ a.t # "i" THEN [ok |-> FALSE, texts |-> acc, err |-> EINVAL]
                ELSE Render(rest, Tail(a2), loc, cat({IntText(itw, w, p, a.limbs)})))
            ELSE IF it.cv = 99 THEN          \* c, lc
               (IF it.len = "l" THEN
                   (LET b == WcBytes(LimbToInt32(a.limbs), loc) IN
                    IF b = <<>> THEN [ok |-> FALSE, texts |-> acc, err |-> EILSEQ]
                    ELSE Render(rest, Tail(a2), loc, cat({PadText(itw, w, b)})))
                ELSE Render(rest, Tail(a2), loc, cat({PadText(itw, w, <<Mod(a.limbs[1], 256)>>)})))
            ELSE IF it.cv = 115 THEN          \* s, ls
               (IF a.null THEN [ok |-> FALSE, texts |-> acc, err |-> ESNULLP]
                ELSE IF it.len = "l" THEN
                   (LET b == WcsBytes(a.s, loc, p) IN
                    IF b = <<-1>> THEN [ok |-> FALSE, texts |-> acc, err |-> EILSEQ]
                    ELSE Render(rest, Tail(a2), loc, cat({PadText(itw, w, b)})))
                ELSE LET n == IF p >= 0 THEN Min(p, Len(a.s)) ELSE Len(a.s)
                     IN Render(rest, Tail(a2), loc, cat({PadText(itw, w, SubSeq(a.s, 1, n))})))
            ELSE IF it.cv \in FloatConvs THEN
               (IF a.t \notin {"d", "L"} \/ (it.len = "L") # (a.t = "L") THEN [ok |-> FALSE, texts |-> acc, err |-> -2]
                ELSE LET c == FloatCands(itw, w, p, a.x) IN
                     IF c = {} THEN [ok |-> TRUE, texts |-> {}, err |-> -3]      \* layout not modelled: no text oracle
                     ELSE Render(rest, Tail(a2), loc, cat(c)))
            ELSE [ok |-> FALSE, texts |-> acc, err |-> EINVAL]                     \* unknown conversion
Expected(e) == Render(Parse(e.fmt), e.args, e.loc, {<<>>})

(* the value-consuming directives of a format paired with their arguments: <<item, arg, precision>> *)
RECURSIVE Pairs(_, _)
Pairs(items, args) ==
  IF items = <<>> \/ args = <<>> THEN <<>>
  ELSE LET it == Head(items) IN
       IF it.k = "lit" \/ it.cv = 37 THEN Pairs(Tail(items), args)
       ELSE LET a1 == IF it.w = -2 THEN Tail(args) ELSE args
                a2 == IF it.p = -2 /\ a1 # <<>> THEN Tail(a1) ELSE a1
                p == IF it.p = -2 THEN (IF a1 # <<>> /\ a1[1].t = "i" THEN LimbToInt32(a1[1].limbs) ELSE 0) ELSE it.p
                w == IF it.w = -2 THEN (IF args[1].t = "i" THEN LimbToInt32(args[1].limbs) ELSE 0) ELSE it.w
            IN IF a2 = <<>> THEN <<>> ELSE <<[it |-> it, a |-> a2[1], p |-> p, w |-> IF w < -1 THEN -w ELSE w]>> \o Pairs(Tail(items), Tail(a2))
=============================================================================
