----------------------------- MODULE TraceArena -----------------------------
(* Trace validation for the single-arena families: every recorded execution of the
   real library (one event per call, logged at its return) is judged against the
   contract.  Stateless families: the monitor collects all non-conforming events
   instead of stopping at the first. *)
EXTENDS Contract, Json, IOUtils
VARIABLES l, bad
T == ndJsonDeserialize(IOEnv.TRACE)
Init == l = 1 /\ bad = <<>>
Next == /\ l <= Len(T)
        /\ l' = l + 1
        /\ LET e == T[l]
               v == Verdict(e)
           IN bad' = IF v.ok THEN bad ELSE Append(bad, [i |-> e.id, props |-> v.props, dev |-> v.dev])
Spec == Init /\ [][Next]_<<l, bad>>
Report == (l = Len(T) + 1) => PrintT(<<"RESULT", ToJson([n |-> Len(T), bad |-> bad])>>)
AllKnown == \A i \in 1..Len(T) : Known(T[i])
=============================================================================
