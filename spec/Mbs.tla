-------------------------------- MODULE Mbs --------------------------------
(* C15: multibyte <-> wide conversions.  The two encodings the property quantifies over are
   written out: "C" (ASCII: a byte or wide character >= 128 is not convertible) and "UTF8"
   (the C library's codeset: shortest form, no surrogates; see DecodeU8).  On top of them the module defines
   what the standard functions deliver (mbsrtowcs / wcsrtombs / wcrtomb, of which mbstowcs /
   wcstombs / wctomb are the non-restartable forms) and the contract of the _s functions:
   the standard result when it fits in dmax together with its terminator, an error with a
   cleared dest otherwise.  Byte strings and wide strings are sequences of naturals that end
   with 0; positions are 1-based; position 0 stands for a null *srcp. *)
EXTENDS Naturals, Integers, Sequences, FiniteSets, TLC

BIG == 100000                       \* "no limit" (dest is null: len is ignored by the standard functions)
EOK == 0  ESNULLP == 400  ESZEROL == 401  ESLEMAX == 403  ESNOSPC == 406  EILSEQ == 84

---------------------------------------------------------------------------
(* encodings *)
Mod(a, m) == a - m * (a \div m)
IsCont(b) == b >= 128 /\ b < 192
Bad == [n |-> 0, c |-> 0]
\* one character of byte sequence b at index i.  "UTF8" is the C library's UTF-8 codeset: the original 31-bit form
\* (1..6 bytes, up to 0x7FFFFFFF), shortest form only, no surrogates.  (RFC 3629 stops at U+10FFFF; glibc does not.)
DecodeU8(b, i) ==
  LET b0 == b[i]
      cont(k) == i + k <= Len(b) /\ IsCont(b[i + k])
      low(k) == b[i + k] - 128
  IN IF b0 < 128 THEN [n |-> 1, c |-> b0]
     ELSE IF b0 >= 194 /\ b0 < 224 THEN
          (IF cont(1) THEN [n |-> 2, c |-> (b0 - 192) * 64 + low(1)] ELSE Bad)
     ELSE IF b0 >= 224 /\ b0 < 240 THEN
          (IF cont(1) /\ cont(2)
           THEN LET c == (b0 - 224) * 4096 + low(1) * 64 + low(2)
                IN IF c < 2048 \/ (c >= 55296 /\ c <= 57343) THEN Bad ELSE [n |-> 3, c |-> c]
           ELSE Bad)
     ELSE IF b0 >= 240 /\ b0 < 248 THEN
          (IF cont(1) /\ cont(2) /\ cont(3)
           THEN LET c == (b0 - 240) * 262144 + low(1) * 4096 + low(2) * 64 + low(3)
                IN IF c < 65536 THEN Bad ELSE [n |-> 4, c |-> c]
           ELSE Bad)
     ELSE IF b0 >= 248 /\ b0 < 252 THEN
          (IF cont(1) /\ cont(2) /\ cont(3) /\ cont(4)
           THEN LET c == (b0 - 248) * 16777216 + low(1) * 262144 + low(2) * 4096 + low(3) * 64 + low(4)
                IN IF c < 2097152 THEN Bad ELSE [n |-> 5, c |-> c]
           ELSE Bad)
     ELSE IF b0 >= 252 /\ b0 < 254 THEN
          (IF cont(1) /\ cont(2) /\ cont(3) /\ cont(4) /\ cont(5)
           THEN LET c == (b0 - 252) * 1073741824 + low(1) * 16777216 + low(2) * 262144 + low(3) * 4096 + low(4) * 64 + low(5)
                IN IF c < 67108864 THEN Bad ELSE [n |-> 6, c |-> c]
           ELSE Bad)
     ELSE Bad
Decode(b, i, loc) == IF loc = "C" THEN (IF b[i] < 128 THEN [n |-> 1, c |-> b[i]] ELSE Bad) ELSE DecodeU8(b, i)

EncodeU8(c) ==
  LET k(s) == 128 + Mod(c \div s, 64) IN
  IF c < 128 THEN <<c>>
  ELSE IF c < 2048 THEN <<192 + c \div 64, k(1)>>
  ELSE IF c >= 55296 /\ c <= 57343 THEN <<>>
  ELSE IF c < 65536 THEN <<224 + c \div 4096, k(64), k(1)>>
  ELSE IF c < 2097152 THEN <<240 + c \div 262144, k(4096), k(64), k(1)>>
  ELSE IF c < 67108864 THEN <<248 + c \div 16777216, k(262144), k(4096), k(64), k(1)>>
  ELSE <<252 + c \div 1073741824, k(16777216), k(262144), k(4096), k(64), k(1)>>
\* <<>> = not convertible
Encode(c, loc) == IF loc = "C" THEN (IF c < 128 THEN <<c>> ELSE <<>>) ELSE EncodeU8(c)

---------------------------------------------------------------------------
(* the standard functions.  Result: out = elements stored (with the terminator when it was
   reached and stored), cnt = the count returned (-1: encoding error), pos = *srcp afterwards
   (0 = null pointer), stop = why the conversion ended *)
RECURSIVE MbScan(_, _, _, _)
MbScan(b, i, lim, loc) ==      \* lim = wide characters that may still be stored
  IF lim = 0 THEN [out |-> <<>>, stop |-> "len", pos |-> i]
  ELSE LET d == Decode(b, i, loc) IN
       IF d.n = 0 THEN [out |-> <<>>, stop |-> "bad", pos |-> i]
       ELSE IF d.c = 0 THEN [out |-> <<0>>, stop |-> "nul", pos |-> 0]
       ELSE LET r == MbScan(b, i + d.n, lim - 1, loc) IN [r EXCEPT !.out = <<d.c>> \o r.out]
StdMbsrtowcs(b, i, len, destnull, loc) ==
  LET r == MbScan(b, i, IF destnull THEN BIG ELSE len, loc)
      chars == IF r.stop = "nul" THEN Len(r.out) - 1 ELSE Len(r.out)
  IN [out |-> r.out, cnt |-> IF r.stop = "bad" THEN -1 ELSE chars, stop |-> r.stop, pos |-> IF destnull THEN i ELSE r.pos]

RECURSIVE WcScan(_, _, _, _)
WcScan(w, i, lim, loc) ==      \* lim = bytes that may still be stored
  IF lim = 0 THEN [out |-> <<>>, stop |-> "len", pos |-> i]
  ELSE IF w[i] = 0 THEN [out |-> <<0>>, stop |-> "nul", pos |-> 0]
  ELSE LET e == Encode(w[i], loc) IN
       IF e = <<>> THEN [out |-> <<>>, stop |-> "bad", pos |-> i]
       ELSE IF Len(e) > lim THEN [out |-> <<>>, stop |-> "len", pos |-> i]
       ELSE LET r == WcScan(w, i + 1, lim - Len(e), loc) IN [r EXCEPT !.out = e \o r.out]
StdWcsrtombs(w, i, len, destnull, loc) ==
  LET r == WcScan(w, i, IF destnull THEN BIG ELSE len, loc)
      bytes == IF r.stop = "nul" THEN Len(r.out) - 1 ELSE Len(r.out)
  IN [out |-> r.out, cnt |-> IF r.stop = "bad" THEN -1 ELSE bytes, stop |-> r.stop, pos |-> IF destnull THEN i ELSE r.pos]

\* wcrtomb / wctomb of one wide character: the bytes (for L'\0': the one byte 0), <<>> = encoding error
StdWcrtomb(c, loc) == IF c = 0 THEN <<0>> ELSE Encode(c, loc)

---------------------------------------------------------------------------
(* laws of the definitions, checked by TLC in GenMbs *)
WLen(w) == Len(w) - 1
RoundTripLaw(w, loc) ==      \* a convertible wide string converted to multibyte and back is unchanged
  LET m == StdWcsrtombs(w, 1, BIG, FALSE, loc)
  IN m.cnt >= 0 => StdMbsrtowcs(m.out, 1, BIG, FALSE, loc).out = w
QueryLaw(b, loc) ==          \* the null-dest count is what a converting call needs: dmax = count + 1 fits, count does not
  LET q == StdMbsrtowcs(b, 1, 0, TRUE, loc)
  IN q.cnt >= 0 => StdMbsrtowcs(b, 1, q.cnt + 1, FALSE, loc).cnt = q.cnt /\ StdMbsrtowcs(b, 1, q.cnt + 1, FALSE, loc).stop = "nul"
ChunkLawMb(b, k, loc) ==     \* converting in two restartable calls (k characters, then the rest) = converting at once
  LET all == StdMbsrtowcs(b, 1, BIG, FALSE, loc)
      one == StdMbsrtowcs(b, 1, k, FALSE, loc)
  IN (all.cnt >= 0 /\ one.stop = "len") => one.out \o StdMbsrtowcs(b, one.pos, BIG, FALSE, loc).out = all.out
ChunkLawWc(w, k, loc) ==
  LET all == StdWcsrtombs(w, 1, BIG, FALSE, loc)
      one == StdWcsrtombs(w, 1, k, FALSE, loc)
  IN (all.cnt >= 0 /\ one.stop = "len") => one.out \o StdWcsrtombs(w, one.pos, BIG, FALSE, loc).out = all.out
=============================================================================
