SPECIFICATION Spec
CONSTANTS N = 6
          K = 3
          BosMode = 0
          Fns = {"strcpy_s", "strncpy_s", "strcat_s", "strncat_s"}
INVARIANTS NonEmpty PropsHold
CHECK_DEADLOCK FALSE
