----------------------------- MODULE TimingSafe -----------------------------
(* C19.  Two things are specified.
   (1) The result contract: timingsafe_bcmp is zero exactly when the regions are equal;
       timingsafe_memcmp has the sign of the first differing pair compared as unsigned chars.
   (2) The algorithm as a state machine whose every step appends what an observer of
       control flow and addresses can see (the label of the step and the index it touches)
       to `obs`.  Data independence is the 2-safety property "for a given n, obs does not
       depend on the contents": because the machine is deterministic it is checked as the
       invariant obs = a prefix of Shape(n), with Shape a function of n alone.  The variant
       "leaky" (early exit at the first difference: an ordinary memcmp) is part of the model
       so that the check can be seen to fail on it (LeakySpec; used by the driver as a
       self-test of the invariant).
   TLC enumerates every pair of contents over Bytes for n <= MaxN; the same states are the
   result cases replayed into the real functions. *)
EXTENDS TimingSafeContract, TLC
CONSTANTS MaxN, Bytes, Algs
VARIABLE m        \* machine state: one record

RECURSIVE SeqsOf(_, _)
SeqsOf(S, n) == IF n = 0 THEN {<<>>} ELSE {Append(s, x) : s \in SeqsOf(S, n - 1), x \in S}
\* what any run over n bytes may show: load a[i], load b[i], accumulate - for i = 1..n - and the return
Shape(n) == [j \in 1..(3 * n + 1) |-> IF j = 3 * n + 1 THEN <<"ret", 0>>
                                      ELSE LET i == (j - 1) \div 3 + 1
                                               ph == j - 3 * (i - 1)
                                           IN <<IF ph = 1 THEN "lda" ELSE IF ph = 2 THEN "ldb" ELSE "acc", i>>]
IsPrefix(s, t) == Len(s) <= Len(t) /\ \A j \in 1..Len(s) : s[j] = t[j]

Init == \E alg \in Algs, n \in 0..MaxN : \E a \in SeqsOf(Bytes, n), b \in SeqsOf(Bytes, n) :
          m = [alg |-> alg, a |-> a, b |-> b, i |-> 1, ph |-> 1, x |-> 0, y |-> 0, res |-> 0, done |-> 0, pc |-> "loop", obs |-> <<>>]
N == Len(m.a)
Step ==
  /\ m.pc = "loop"
  /\ IF m.i > N THEN m' = [m EXCEPT !.pc = "ret", !.obs = Append(@, <<"ret", 0>>)]
     ELSE IF m.ph = 1 THEN m' = [m EXCEPT !.x = m.a[m.i], !.ph = 2, !.obs = Append(@, <<"lda", m.i>>)]
     ELSE IF m.ph = 2 THEN m' = [m EXCEPT !.y = m.b[m.i], !.ph = 3, !.obs = Append(@, <<"ldb", m.i>>)]
     ELSE LET lt == IF m.x < m.y THEN -1 ELSE 0          \* (x - y) >> CHAR_BIT
              gt == IF m.y < m.x THEN -1 ELSE 0          \* (y - x) >> CHAR_BIT
              cmp == lt - gt
          IN IF m.alg = "bcmp" THEN            \* ret |= x ^ y
               m' = [m EXCEPT !.res = IF m.x # m.y THEN 1 ELSE @, !.i = @ + 1, !.ph = 1, !.obs = Append(@, <<"acc", m.i>>)]
             ELSE IF m.alg = "memcmp" THEN     \* res |= cmp & ~done ; done |= lt | gt
               m' = [m EXCEPT !.res = IF m.done = 0 THEN cmp ELSE @, !.done = IF lt # 0 \/ gt # 0 THEN -1 ELSE @,
                              !.i = @ + 1, !.ph = 1, !.obs = Append(@, <<"acc", m.i>>)]
             ELSE                              \* "leaky": return at the first difference
               IF m.x # m.y THEN m' = [m EXCEPT !.res = cmp, !.pc = "ret", !.obs = Append(Append(@, <<"acc", m.i>>), <<"ret", 0>>)]
               ELSE m' = [m EXCEPT !.i = @ + 1, !.ph = 1, !.obs = Append(@, <<"acc", m.i>>)]
Next == Step
Spec == Init /\ [][Next]_m

Correct == m.pc = "ret" => ResultOK(IF m.alg = "bcmp" THEN "bcmp" ELSE "memcmp", m.a, m.b, m.res)
\* data independence: what can be observed is determined by n
DataIndependent == IsPrefix(m.obs, Shape(N)) /\ (m.pc = "ret" => m.obs = Shape(N))
=============================================================================
