------------------------------ MODULE GenOsEnv ------------------------------
(* Bounded call space of the OsEnv functions, enumerated by TLC: each state is one call
   [fn, dmax, dnull, pre, args].  TLC also checks the Asctime definition for shape (26
   characters for four-digit years, ending in a newline).  lib/osenv.py replays every state
   through the real functions in both slack builds; TraceOsEnv.tla judges. *)
EXTENDS OsEnv
VARIABLE st
DmaxStr == {0, 1, 2, 3, 4, 5, 8, 20, 25, 26, 27, 40, 64, 119, 120, 121, 5000}
Errnums == {0, 1, 2, 13, 22, 34, 84, 133, 134, 400, 401, 406, 410, 411, 9999, -1}
Tms == {[sec |-> s, min |-> 59, hour |-> h, mday |-> d, mon |-> m, year |-> y, wday |-> w, yday |-> 10, isdst |-> 0] :
          s \in {0, 60, 61, -1}, h \in {0, 23, 24}, d \in {0, 1, 9, 31, 32}, m \in {-1, 0, 11, 12}, y \in {-1, 0, 99, 8099, 8100}, w \in {0, 6, 7}}
Times == {-1, 0, 1, 86399, 951782400, 1999999999, 2000000000}     \* 2000000000 stands for the library's documented limit MAX_TIME_T_STR in the driver
Init == st = [fn |-> 0, dmax |-> 0, dnull |-> 0, pre |-> 0, args |-> <<>>]
Next == /\ st.fn = 0
        /\ \/ \E dmax \in DmaxStr, dn \in {0, 1}, pre \in {0, 1}, en \in Errnums : st' = [fn |-> 1, dmax |-> dmax, dnull |-> dn, pre |-> pre, args |-> <<en>>]
           \/ \E dmax \in DmaxStr, dn \in {0, 1}, pre \in {0, 1}, t \in Tms, tn \in {0, 1} :
                /\ (tn = 1 => t.sec = 0 /\ t.hour = 0 /\ t.mday = 1 /\ t.mon = 0 /\ t.year = 99 /\ t.wday = 0)
                /\ (dn = 1 \/ dmax \notin {1, 26, 40, 120}) => (t.sec = 0 /\ t.hour = 0 /\ t.mday = 1 /\ t.mon = 0 /\ t.year = 99 /\ t.wday = 0)
                /\ st' = [fn |-> 2, dmax |-> dmax, dnull |-> dn, pre |-> pre, args |-> <<tn, t.sec, t.min, t.hour, t.mday, t.mon, t.year, t.wday, t.yday, t.isdst>>]
           \/ \E dmax \in DmaxStr, dn \in {0, 1}, pre \in {0, 1}, t \in Times, tn \in {0, 1} : st' = [fn |-> 3, dmax |-> dmax, dnull |-> dn, pre |-> pre, args |-> <<tn, t>>]
           \/ \E dmax \in DmaxStr, dn \in {0, 1}, pre \in {0, 1}, ln \in {0, 1}, which \in 0..4 : st' = [fn |-> 4, dmax |-> dmax, dnull |-> dn, pre |-> pre, args |-> <<ln, which>>]
           \/ \E fn \in {5, 6}, t \in Times, tn \in {0, 1}, dn \in {0, 1} : st' = [fn |-> fn, dmax |-> 0, dnull |-> 0, pre |-> 0, args |-> <<tn, dn, t>>]
           \/ \E dmax \in {0, 1, 2, 3, 4, 5, 8, 5000}, dn \in {0, 1}, pre \in {0, 1},
                 inp \in {<<>>, <<10>>, <<97>>, <<97, 10>>, <<97, 98, 10>>, <<97, 98, 99>>, <<97, 98, 99, 10>>, <<97, 98, 99, 100, 10, 101>>, <<97, 98, 99, 100, 101, 102, 103, 104, 10>>} :
                st' = [fn |-> 7, dmax |-> dmax, dnull |-> dn, pre |-> pre, args |-> <<Len(inp)>> \o inp]
           \/ \E spn \in {0, 1}, fnn \in {0, 1}, mn \in {0, 1}, which \in 0..3 : st' = [fn |-> 8, dmax |-> 0, dnull |-> 0, pre |-> 0, args |-> <<spn, fnn, mn, which>>]
           \/ \E spn \in {0, 1}, fnn \in {0, 1}, mn \in {0, 1}, stn \in {0, 1}, which \in {0, 1, 3} : st' = [fn |-> 9, dmax |-> 0, dnull |-> 0, pre |-> 0, args |-> <<spn, fnn, mn, stn, which>>]
           \/ \E spn \in {0, 1} : st' = [fn |-> 10, dmax |-> 0, dnull |-> 0, pre |-> 0, args |-> <<spn>>]
Spec == Init /\ [][Next]_st
AsctimeShape == st.fn = 2 => LET t == TmOf(st.args) IN (~TmLow(t) /\ ~TmHigh(t)) =>
                  LET s == Asctime(t) IN s[Len(s)] = 10 /\ s[4] = 32 /\ (t.year >= -900 /\ t.year <= 8099 => Len(s) = 25 \/ Len(s) = 24 \/ Len(s) = 23 \/ Len(s) = 22)
=============================================================================
