------------------------------ MODULE StrCopy ------------------------------
(* Contracts of the copy / concatenate family, narrow and wide:
   strcpy_s strncpy_s strcat_s strncat_s stpcpy_s stpncpy_s wcscpy_s wcsncpy_s
   wcscat_s wcsncat_s, and the field functions strcpyfld_s strcpyfldin_s
   strcpyfldout_s.  An event/call e carries fn, d, dmax, s, slen, dbos, sbos, slack,
   flags and the pre-arena; Outcomes is a relation (set of admitted outcomes). *)
EXTENDS Base

CopyFns == {"strcpy_s", "wcscpy_s", "stpcpy_s"}
NCopyFns == {"strncpy_s", "wcsncpy_s", "stpncpy_s"}
CatFns == {"strcat_s", "wcscat_s"}
NCatFns == {"strncat_s", "wcsncat_s"}
StpFns == {"stpcpy_s", "stpncpy_s"}
FldFns == {"strcpyfld_s", "strcpyfldin_s", "strcpyfldout_s"}
StrCopyFns == CopyFns \cup NCopyFns \cup CatFns \cup NCatFns \cup FldFns

(* success template: dest[0..keep) unchanged (concatenation), then len copied
   elements, the terminator, then the slack up to dmax *)
CopyOkMem(e, keep, len, from) ==
  Tmpl(e.pre, [i \in Rng(e.d, e.dmax) |->
      IF i < e.d + keep THEN Same({"C06"})
      ELSE IF i < e.d + keep + len THEN Ex(e.pre[from + (i - e.d - keep)], {"C06"})
      ELSE IF i = e.d + keep + len THEN Ex(0, {"C03", "C06"})
      ELSE IF e.slack = 1 THEN Ex(0, {"C08"}) ELSE AnyC])

(* the three-region overlap rule shared by the bumper functions.
   W = elements written, R = elements read, D = the declared dest extent *)
Classify(ok, fits, W, R, D, e, extraErr) ==
  LET ovl == Errs({ESOVRLP}, ClearedMem(e, TRUE))
      nsp == Errs({ESNOSPC}, ClearedMem(e, TRUE))
      must == W \cap R # {}
      disj == D \cap R = {}
  IN IF must THEN ovl \cup (IF fits THEN {} ELSE nsp) \cup extraErr
     ELSE IF ~fits THEN nsp \cup (IF disj THEN {} ELSE ovl) \cup extraErr
     ELSE IF extraErr # {} THEN extraErr \cup (IF disj THEN {} ELSE ovl)
     ELSE ok \cup (IF disj THEN {} ELSE ovl)

(* decorate for the stp* functions: result pointer and *errp *)
Stp(e, o, endp) ==
  IF e.fn \in StpFns THEN WithRet(o, IF o.cls = "ok" THEN {endp} ELSE {NULLP}) ELSE o

SrcViolN(e) ==  \* violations of the slen / object-size-of-src constraints
       {c \in {ESLEMAX} : e.slen = HUGE}
  \cup {c \in {EOVERFLOW} : e.sbos # UNK /\ e.slen # HUGE /\ e.slen > e.sbos}

CopyOutcomes(e) ==
  LET a == e.pre  d == e.d  s == e.s  dmax == e.dmax
  IN IF e.fn \in StpFns /\ e.flags = 1
       THEN {WithRet(Out("err", {-7777}, {<<ESNULLP>>}, Untouched(a)), {NULLP})}
     ELSE IF DestViol(e) # {} THEN {Stp(e, o, 0) : o \in Errs(DestViol(e), DestViolMem(e))}
     ELSE IF s = NULLP THEN {Stp(e, o, 0) : o \in Errs({ESNULLP}, ClearedMem(e, TRUE))}
     ELSE IF d = s THEN
        \* identical pointers: documented as accepted, dest unchanged
        LET len == ScanLen(a, s, dmax)
        IN IF len < dmax THEN {Stp(e, OkOut(Tmpl(a, [i \in Rng(d, dmax) |-> IF i <= d + len THEN Same({"C06"}) ELSE IF e.fn \in StpFns /\ e.slack = 1 THEN OZ({"C08"}) ELSE Same({"C06"})])), d + len)}
           ELSE IF e.fn \in StpFns THEN {Stp(e, o, 0) : o \in Errs({ESNOSPC}, ClearedMem(e, TRUE))}
           ELSE {OkOut(Untouched(a))}
     ELSE
       LET len  == ScanLen(a, s, dmax)
           fits == len < dmax
           n    == IF fits THEN len + 1 ELSE dmax
           unt  == IF e.sbos # UNK /\ ScanLen(a, s, e.sbos) >= e.sbos /\ e.sbos <= dmax
                   THEN Errs({ESUNTERM}, ClearedMem(e, FALSE)) ELSE {}
           ok   == {OkOut(CopyOkMem(e, 0, len, s))}
       IN {Stp(e, o, d + len) : o \in Classify(ok, fits, Rng(d, n), Rng(s, n), Rng(d, dmax), e, unt)}

NCopyOutcomes(e) ==
  LET a == e.pre  d == e.d  s == e.s  dmax == e.dmax  slen == e.slen
      lim  == Min(slen, dmax)
      len  == ScanLen(a, s, lim)                  \* characters copied = min(strlen, slen)
      fits == len < dmax
      rn   == IF fits THEN (IF len < slen THEN len + 1 ELSE len) ELSE dmax   \* elements read
      wn   == IF fits THEN len + 1 ELSE dmax                                 \* elements written
      ok   == {OkOut(CopyOkMem(e, 0, len, s))}
      \* identical pointers are not documented either way for the n-variants: admitted are the
      \* strncpy result, the unchanged string when it is terminated inside dmax, or a report
      full == ScanLen(a, s, dmax)
      keep == IF full < dmax
              THEN {Stp(e, OkOut(Tmpl(a, [i \in Rng(d, dmax) |-> IF i <= d + full THEN Same({"C06"}) ELSE IF e.slack = 1 THEN OZ({"C08"}) ELSE AnyC])), d + full)}
              ELSE {}
      sameOuts == {Stp(e, o, d + len) : o \in (IF fits THEN ok ELSE {}) \cup Errs({ESOVRLP}, ClearedMem(e, TRUE))
                                            \cup (IF fits /\ full < dmax THEN {} ELSE Errs({ESNOSPC}, ClearedMem(e, TRUE)))} \cup keep
  IN IF e.fn \in StpFns /\ e.flags = 1
       THEN {WithRet(Out("err", {-7777}, {<<ESNULLP>>}, Untouched(a)), {NULLP})}
     ELSE IF DestViol(e) # {} THEN {Stp(e, o, 0) : o \in Errs(DestViol(e), DestViolMem(e))}
     ELSE IF s = NULLP /\ slen # 0 THEN {Stp(e, o, 0) : o \in Errs({ESNULLP}, ClearedMem(e, TRUE))}
     ELSE IF SrcViolN(e) # {} THEN {Stp(e, o, 0) : o \in Errs(SrcViolN(e), ClearedMem(e, FALSE))}
     ELSE IF slen = 0 THEN
        \* zero characters requested: dest becomes the empty string (C11: "copies not more than n
        \* characters", then appends NUL); a null src with slen = 0 may also be reported
        {Stp(e, OkOut(Tmpl(a, [i \in Rng(d, dmax) |-> IF i = d THEN Ex(0, {"C03", "C06"}) ELSE AnyC])), d)}
          \cup (IF s = NULLP THEN {Stp(e, o, 0) : o \in Errs({ESNULLP}, ClearedMem(e, TRUE))} ELSE {})
          \cup (IF s = d THEN sameOuts ELSE {})
     ELSE IF d = s THEN sameOuts
     ELSE {Stp(e, o, d + len) : o \in Classify(ok, fits, Rng(d, wn), Rng(s, rn), Rng(d, dmax), e, {})}

CatOutcomes(e) ==
  LET a == e.pre  d == e.d  s == e.s  dmax == e.dmax
      isN == e.fn \in NCatFns
      slen == IF isN THEN e.slen ELSE dmax
  IN IF isN /\ d = NULLP /\ dmax = 0 /\ slen = 0 THEN {OkOut(Untouched(a))} \cup Errs({ESNULLP, ESZEROL}, Untouched(a))
     ELSE IF DestViol(e) # {} THEN Errs(DestViol(e), DestViolMem(e))
     ELSE IF s = NULLP THEN Errs({ESNULLP}, ClearedMem(e, TRUE))
     ELSE IF isN /\ SrcViolN(e) # {} THEN Errs(SrcViolN(e), ClearedMem(e, FALSE))
     ELSE
       LET dl   == ScanLen(a, d, dmax)
           unt  == dl >= dmax
           room == dmax - dl
           lim  == Min(slen, room)
           len  == ScanLen(a, s, lim)
           fits == len < room
           rn   == IF fits THEN (IF len < slen THEN len + 1 ELSE len) ELSE room
           wn   == IF fits THEN len + 1 ELSE room
           W    == Rng(d + dl, wn)
           R    == IF s \in Rng(d, dl + 1) THEN W ELSE Rng(s, rn)   \* src inside the dest string: always overlapping
           ok   == {OkOut(CopyOkMem(e, dl, len, s))}
           utm  == Errs({ESUNTERM}, ClearedMem(e, TRUE))
           ovl  == Errs({ESOVRLP}, ClearedMem(e, TRUE))
       IN IF unt THEN utm \cup (IF s \in Rng(d - dmax, 2 * dmax) THEN ovl ELSE {})
                      \cup (IF isN /\ slen = 0 THEN Errs({ESZEROL}, ClearedMem(e, TRUE)) ELSE {})
          ELSE IF isN /\ slen = 0 THEN {OkOut(CopyOkMem(e, dl, 0, s))}
          ELSE Classify(ok, fits, W, R, Rng(d, dmax), e, {})

(* ---- the field functions.  strcpyfld_s copies exactly slen elements (NULs included) and nulls the rest of the field;
   strcpyfldin_s copies at most slen characters of a terminated string and nulls the rest of the field; strcpyfldout_s
   copies slen elements of a field and terminates them.  slen = 0 is documented as "EOK" before anything is looked at. *)
FldRestCell(e) == IF e.slack = 1 THEN Ex(0, {"C08"}) ELSE OZ({"C08"})
FldOutcomes(e) ==
  LET a == e.pre  d == e.d  s == e.s  dmax == e.dmax  slen == e.slen
  IN IF slen = 0 THEN {OkOut(Untouched(a))}
     ELSE IF DestViol(e) # {} THEN Errs(DestViol(e), DestViolMem(e))
     ELSE IF s = NULLP THEN Errs({ESNULLP}, ClearedMem(e, TRUE))
     ELSE IF slen = HUGE THEN Errs({ESLEMAX}, ClearedMem(e, FALSE))
     ELSE IF slen > dmax THEN Errs({ESNOSPC}, ClearedMem(e, FALSE))
     ELSE IF e.fn = "strcpyfld_s" THEN
        LET ok == {OkOut(Tmpl(a, [i \in Rng(d, dmax) |-> IF i < d + slen THEN Ex(a[s + (i - d)], {"C06"}) ELSE FldRestCell(e)]))}
        IN Classify(ok, TRUE, Rng(d, slen), Rng(s, slen), Rng(d, dmax), e, {})
     ELSE IF e.fn = "strcpyfldin_s" THEN
        LET len == ScanLen(a, s, slen)                      \* at most slen characters, stopping at the terminator
            rn  == IF len < slen THEN len + 1 ELSE len
            ok  == {OkOut(Tmpl(a, [i \in Rng(d, dmax) |-> IF i < d + len THEN Ex(a[s + (i - d)], {"C06"}) ELSE Ex(0, {"C06"})]))}
        \* as for the slack nulling of strcpy_s, the fill behind the first null is not counted as "written" for the overlap rule
        IN Classify(ok, TRUE, Rng(d, Min(len + 1, dmax)), Rng(s, rn), Rng(d, dmax), e, {})
     ELSE   \* strcpyfldout_s: slen elements and the terminator
        LET m   == Min(slen, dmax - 1)
            okm == Tmpl(a, [i \in Rng(d, dmax) |-> IF i < d + m THEN Ex(a[s + (i - d)], {"C06"})
                                                   ELSE IF i = d + m THEN Ex(0, {"C03", "C06"}) ELSE FldRestCell(e)])
            \* slen = dmax: the documented code for "does not fit" is only given for slen > dmax; the truncated
            \* string is what the implementation documents by example - both are admitted
            extra == IF slen = dmax THEN Errs({ESNOSPC}, ClearedMem(e, FALSE)) ELSE {}
        IN Classify({OkOut(okm)}, TRUE, Rng(d, m + 1), Rng(s, m), Rng(d, dmax), e, {}) \cup extra

StrCopyOutcomes(e) ==
  CASE e.fn \in CopyFns  -> CopyOutcomes(e)
    [] e.fn \in NCopyFns -> NCopyOutcomes(e)
    [] e.fn \in CatFns \cup NCatFns -> CatOutcomes(e)
    [] e.fn \in FldFns -> FldOutcomes(e)

(* ---- named deviations: documented behaviour of the pinned code that contradicts a
        listed property; precise condition, precise outcome ---- *)
StrCopyDeviations(e) ==
  LET a == e.pre IN
  (IF e.fn \in NCatFns /\ DestViol(e) = {} /\ e.s # NULLP /\ e.slen = 0 /\ SrcViolN(e) = {}
      /\ ScanLen(a, e.d, e.dmax) < e.dmax
   THEN \* "analog to msvcrt": dest is cleared, the handler is invoked with code 0, EOK returned
        {[name |-> "Dev_strncat_slen0", props |-> {"C05", "C06"},
          o |-> Out("ok", {EOK}, {<<EOK>>}, ClearedMem(e, TRUE))]}
   ELSE {})
=============================================================================
