-------------------------------- MODULE Erase --------------------------------
(* C18.  (1) Why the property is one about caller program and build configuration: a model
   of dead-store elimination.  The victim, after inlining what the optimiser can see, is a
   sequence of operations on one buffer; the optimiser may delete a plain store to the
   buffer when nothing it has to respect (a read, an opaque call, a barrier that clobbers
   memory) can observe the buffer before it dies.  The out-of-band observer is not part of
   the program.  TLC explores every optimiser behaviour for each way the erase can be written
   (plain / volatile stores, with or without a barrier) and each visibility of the callee
   (separate translation unit vs. link-time optimisation) and checks Safe: the buffer is
   erased unless the stores are plain, unguarded and visible - which is exactly the cell the
   conformance matrix has to observe on the real code.
   (2) The matrix itself: the second part of Next enumerates the configurations
   (level, link mode, storage, function, parameter kind, n, offset, value) that
   lib/erase.py compiles and runs; TraceErase.tla judges every observation. *)
EXTENDS Naturals, Sequences, FiniteSets, TLC
CONSTANTS Levels, Links, Fns, Ns, Offs
VARIABLE st
Kinds == {"plain", "volatile", "plain_barrier", "volatile_barrier"}
\* the victim as the optimiser sees it
Prog(kind, visible) ==
  <<"fill", "escape_use">> \o
  (IF ~visible THEN <<"opaque_call">>                       \* the erase is a call into another translation unit
   ELSE (IF kind \in {"plain", "plain_barrier"} THEN <<"store">> ELSE <<"vstore">>) \o
        (IF kind \in {"plain_barrier", "volatile_barrier"} THEN <<"barrier">> ELSE <<>>)) \o
  <<"die">>
Observes(op) == op \in {"read", "opaque_call", "barrier", "escape_use"}
\* store at position i is dead: nothing after it observes the buffer before it dies
Dead(p, i) == p[i] = "store" /\ \A j \in (i + 1)..Len(p) : ~Observes(p[j])
Remove(p, i) == SubSeq(p, 1, i - 1) \o SubSeq(p, i + 1, Len(p))
\* memory after running p: erased iff some erasing operation is still there
ErasedAfter(p) == \E i \in 1..Len(p) : p[i] \in {"store", "vstore", "opaque_call"}

Init == st = [mode |-> "init"]
NextOpt ==
  \/ /\ st.mode = "init"
     /\ \E k \in Kinds, vis \in BOOLEAN : st' = [mode |-> "opt", kind |-> k, visible |-> vis, prog |-> Prog(k, vis)]
  \/ /\ st.mode = "opt"
     /\ \E i \in 1..Len(st.prog) : Dead(st.prog, i) /\ st' = [st EXCEPT !.prog = Remove(st.prog, i)]
NextMatrix ==
  /\ st.mode = "init"
  /\ \E lv \in Levels, lk \in Links, fn \in Fns, sto \in {"stack", "heap", "static", "local"}, cp \in {0, 1}, n \in Ns, off \in Offs :
       st' = [mode |-> "case", level |-> lv, link |-> lk, fn |-> fn, storage |-> sto, constp |-> cp, n |-> n, off |-> off]
Next == NextOpt \/ NextMatrix
Spec == Init /\ [][Next]_st
\* whatever the optimiser does, the buffer is erased - except for plain, unguarded stores it can see
Safe == st.mode = "opt" => (ErasedAfter(st.prog) \/ (st.kind = "plain" /\ st.visible))
\* and that exception is real (used as a self-test: TLC must find a violation of this one)
AlwaysErased == st.mode = "opt" => ErasedAfter(st.prog)
=============================================================================
