------------------------------- MODULE Props -------------------------------
(* The listed properties, phrased over a call e and an outcome o admitted by the
   contract.  TLC checks, for every call in the bounded scope and every admitted
   outcome, that the property holds: "everything the contract allows is safe".
   The reference results (the Ref operators) are written from the C standard's
   definitions independently of the contract operators. *)
EXTENDS Contract

(* ---- reference semantics, on sequences ---- *)
RECURSIVE TakeStr(_, _, _)
\* the string starting at p, looking at no more than lim elements: its characters without NUL
TakeStr(a, p, lim) == IF lim <= 0 \/ p > Len(a) \/ a[p] = 0 THEN <<>> ELSE <<a[p]>> \o TakeStr(a, p + 1, lim - 1)
HasNul(a, p, lim) == \E i \in 0..(lim - 1) : p + i <= Len(a) /\ a[p + i] = 0

StrRefFns == StrCopyFns \ FldFns
RefCopy(e) ==  \* strcpy / strncpy-with-termination / strcat / strncat result as a sequence incl. NUL
  LET a == e.pre IN
  CASE e.fn \in CopyFns  -> TakeStr(a, e.s, e.dmax) \o <<0>>
    [] e.fn \in NCopyFns -> TakeStr(a, e.s, Min(e.slen, e.dmax)) \o <<0>>
    [] e.fn \in CatFns   -> TakeStr(a, e.d, e.dmax) \o TakeStr(a, e.s, e.dmax) \o <<0>>
    [] e.fn \in NCatFns  -> TakeStr(a, e.d, e.dmax) \o TakeStr(a, e.s, Min(e.slen, e.dmax)) \o <<0>>
    [] e.fn \in MemCpyFns \cup MemMoveFns -> [j \in 1..e.slen |-> a[e.s + j - 1]]      \* copy through a temporary
    [] e.fn \in MemSetFns -> [j \in 1..e.n |-> e.c]
    [] e.fn \in MemZeroFns -> [j \in 1..e.dmax |-> 0]

DestExtent(e) ==
  IF e.d = NULLP \/ e.dmax = HUGE THEN {}
  ELSE Rng(e.d, IF e.dbos # UNK /\ e.dbos > e.dmax THEN e.dbos ELSE IF e.dbos # UNK THEN Min(e.dmax, e.dbos) ELSE e.dmax)

C01_T(e, o) == \A i \in 1..Len(e.pre) : i \notin DestExtent(e) => o.mem[i].k = "same"

C03_T(e, o) == /\ (ProducesString(e.fn) /\ DestUsable(e) /\ ~NoOpByDoc(e))
                    => \E i \in Rng(e.d, e.dmax) : IsZeroCell(o.mem[i], e.pre[i])
               /\ (InPlaceString(e.fn) /\ DestUsable(e) /\ HasNul(e.pre, e.d, e.dmax))
                    => \E i \in Rng(e.d, e.dmax) : IsZeroCell(o.mem[i], e.pre[i])

ZeroOrOrig(t) == (t.k = "exact" /\ t.v = 0) \/ t.k = "oz" \/ t.k = "same"
C04_T(e, o) == (o.cls = "err" /\ DestUsable(e) /\ ~NoOpByDoc(e) /\ CopyLike(e.fn))
                 => /\ o.mem[e.d] = Ex(0, {"C04"})
                    /\ \A i \in Rng(e.d, e.dmax) : ZeroOrOrig(o.mem[i]) \/ (e.slack = 0 /\ o.mem[i].k = "any")
                    /\ \A i \in 1..Len(e.pre) : i \notin DestExtent(e) => o.mem[i].k = "same"

C05_T(e, o) == /\ o.cls = "err" => \A hs \in o.h : Len(hs) = 1 /\ (o.rc = {hs[1]} \/ o.rc = {-7777}) /\ hs[1] # EOK
               /\ o.cls = "ok"  => o.h = {<<>>}
               /\ (e.dmax = HUGE /\ e.d # NULLP /\ ~NoOpByDoc(e)) => (o.cls = "err" /\ \A i \in 1..Len(e.pre) : o.mem[i].k = "same")

HasRef(e) == e.fn \in StrRefFns \cup MemCpyFns \cup MemMoveFns \cup MemSetFns \cup MemZeroFns
C06_T(e, o) == (o.cls = "ok" /\ HasRef(e) /\ (e.d # e.s \/ e.fn \notin StrRefFns) /\ e.d # NULLP /\ ~NoOpByDoc(e))
                 => LET ref == RefCopy(e)
                    IN /\ Len(ref) <= e.dmax \/ (e.dbos # UNK /\ Len(ref) <= e.dbos)       \* no silent truncation
                       /\ \A j \in 1..Len(ref) :
                            LET t == o.mem[e.d + j - 1] IN
                            \/ (t.k = "exact" /\ t.v = ref[j])
                            \/ (t.k = "same" /\ e.pre[e.d + j - 1] = ref[j])
                       /\ (e.fn \in StpFns => o.ret = {e.d + Len(ref) - 1})
                       /\ (e.fn \notin StrRefFns => \A i \in Rng(e.d, e.dmax) : i >= e.d + Len(ref) => o.mem[i].k = "same")

(* overlap regions, from the reference lengths *)
SrcRead(e) ==  \* elements of src a correct implementation needs to read
  LET a == e.pre
      lim == CASE e.fn \in CopyFns -> e.dmax
               [] e.fn \in NCopyFns -> Min(e.slen, e.dmax)
               [] e.fn \in CatFns -> e.dmax - Len(TakeStr(a, e.d, e.dmax))
               [] e.fn \in NCatFns -> Min(e.slen, e.dmax - Len(TakeStr(a, e.d, e.dmax)))
      t == TakeStr(a, e.s, lim)
  IN Rng(e.s, IF Len(t) < lim /\ HasNul(a, e.s, lim) THEN Len(t) + 1 ELSE Len(t))
C07_T(e, o) ==
  /\ (e.fn \in StrRefFns /\ DestUsable(e) /\ e.s # NULLP /\ e.d # e.s /\ e.slen # HUGE
                /\ (e.fn \in CatFns \cup NCatFns => HasNul(e.pre, e.d, e.dmax)))
                 => /\ (Rng(e.d, e.dmax) \cap SrcRead(e) = {} => ESOVRLP \notin o.rc)
                    /\ (LET keep == IF e.fn \in CatFns \cup NCatFns THEN Len(TakeStr(e.pre, e.d, e.dmax)) ELSE 0
                            W == Rng(e.d + keep, Len(RefCopy(e)) - keep)
                        IN (W \cap SrcRead(e) # {} /\ Len(RefCopy(e)) <= e.dmax) => o.cls = "err")
  /\ (e.fn \in MemCpyFns /\ DestUsable(e) /\ e.s # NULLP /\ e.slen > 0 /\ e.slen <= e.dmax /\ e.d # e.s /\ (e.sbos = UNK \/ e.slen <= e.sbos))
                 => /\ (Rng(e.d, IF e.dbos # UNK /\ e.dbos > e.dmax THEN e.dbos ELSE e.dmax) \cap Rng(e.s, e.slen) = {} => o.cls = "ok")   \* a known larger dest object counts as the operand
                    /\ (Rng(e.d, e.slen) \cap Rng(e.s, e.slen) # {} => o.rc = {ESOVRLP})
  /\ (e.fn \in MemMoveFns /\ DestUsable(e) /\ e.s # NULLP /\ e.slen > 0 /\ e.slen <= e.dmax /\ (e.sbos = UNK \/ e.slen <= e.sbos))
                 => o.cls = "ok"

C08_T(e, o) == (o.cls = "ok" /\ e.slack = 1 /\ e.fn \in StrRefFns /\ e.d # e.s /\ e.d # NULLP /\ e.slen # 0)
                 => \A i \in Rng(e.d, e.dmax) : i >= e.d + Len(RefCopy(e)) - 1 => o.mem[i] = Ex(0, {"C08"}) \/ o.mem[i] = Ex(0, {"C03", "C06"})

(* C10: queries never modify their operands; comparison results are antisymmetric *)
C10_T(e, o) == e.fn \in StrQueryFns =>
                 /\ \A i \in 1..Len(e.pre) : o.mem[i].k = "same"
                 /\ (e.fn \in {"strcmp_s", "strcasecmp_s", "strcmpfld_s", "memcmp_s"} /\ o.cls = "ok" /\ o.rc = {EOK} /\ o.sg # 2 /\ e.dmax = e.slen) =>
                       \A o2 \in Outcomes([e EXCEPT !.d = e.s, !.s = e.d]) : o2.sg = -o.sg

AllProps(e, o) == C01_T(e, o) /\ C03_T(e, o) /\ C04_T(e, o) /\ C05_T(e, o) /\ C06_T(e, o) /\ C07_T(e, o) /\ C08_T(e, o) /\ C10_T(e, o)
=============================================================================
