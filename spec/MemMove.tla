------------------------------ MODULE MemMove ------------------------------
(* Algorithm layer for mem_prim_move (the engine of memmove_s / memcpy_s and the clearing
   paths): direction choice by address order, a byte loop that aligns both operands when
   their low address bits agree (or copies everything when they do not, or the length is
   below a word), word copies, and a byte loop for the tail - forwards when dest < src,
   backwards otherwise.  Every step is one byte or one word copy (a word is read completely
   before it is written).  TLC runs it for every placement of source and destination in a
   small address space (both alignments, overlapping either way, disjoint, identical),
   every length from 1 to MaxLen, and checks

     MoveCorrect    at the end dest holds the original source bytes (memmove semantics: a copy
                    through a temporary), and nothing outside dest[0..len) changed;
     NoEmptyDoLoop  every `do .. while (--t)` loop is entered with t > 0 (the loops would
                    otherwise run 2^32 times);
     InBounds       no step reads outside src[0..len) or writes outside dest[0..len).

   The constant Choice selects the direction test: "code" is `dest < src => forward`;
   "fencepost" (forward also when dest = src + len - 1 ...) is the seeded change
   C06-memmove-one-byte-overlap - TLC must reject it (self-test).  Binding to the code: the
   same placements are enumerated by GenArena (memmove family) and the seeded sizes of
   lib/p2.py, executed and judged against MemOps!Outcomes, whose success template is exactly
   MoveCorrect. *)
EXTENDS Naturals, Sequences, FiniteSets, TLC
CONSTANTS N, W, MaxLen, Choice
VARIABLE m
Mod(a, k) == a - k * (a \div k)
Pre == [i \in 1..N |-> 10 + i]
Unal(x) == Mod(x, W) # 0
Init == \E d \in 1..N, s \in 1..N, len \in 1..MaxLen :
          /\ d + len - 1 <= N /\ s + len - 1 <= N
          /\ LET fwd == IF Choice = "code" THEN d < s ELSE (d < s \/ d >= s + len - 1)
             IN m = [mem |-> Pre, d |-> d, s |-> s, len0 |-> len, fwd |-> fwd,
                     dp |-> IF fwd THEN d ELSE d + len, sp |-> IF fwd THEN s ELSE s + len, len |-> len,
                     pc |-> "align", t |-> 0, ok |-> TRUE, lo |-> TRUE]
\* ok: every access so far was inside the operands; lo: every do-while loop so far was entered with t > 0
InSrc(i) == i >= m.s /\ i < m.s + m.len0
InDst(i) == i >= m.d /\ i < m.d + m.len0
ByteFwd == m' = [m EXCEPT !.mem[m.dp] = m.mem[m.sp], !.dp = @ + 1, !.sp = @ + 1, !.t = @ - 1, !.ok = @ /\ InSrc(m.sp) /\ InDst(m.dp)]
ByteBwd == m' = [m EXCEPT !.mem[m.dp - 1] = m.mem[m.sp - 1], !.dp = @ - 1, !.sp = @ - 1, !.t = @ - 1, !.ok = @ /\ InSrc(m.sp - 1) /\ InDst(m.dp - 1)]
WordAt(mem, p) == [k \in 0..(W - 1) |-> mem[p + k]]
WordFwd == LET w == WordAt(m.mem, m.sp) IN
           m' = [m EXCEPT !.mem = [i \in 1..N |-> IF i >= m.dp /\ i < m.dp + W THEN w[i - m.dp] ELSE m.mem[i]],
                          !.dp = @ + W, !.sp = @ + W, !.t = @ - 1,
                          !.ok = @ /\ InSrc(m.sp) /\ InSrc(m.sp + W - 1) /\ InDst(m.dp) /\ InDst(m.dp + W - 1)]
WordBwd == LET w == WordAt(m.mem, m.sp - W) IN
           m' = [m EXCEPT !.mem = [i \in 1..N |-> IF i >= m.dp - W /\ i < m.dp THEN w[i - (m.dp - W)] ELSE m.mem[i]],
                          !.dp = @ - W, !.sp = @ - W, !.t = @ - 1,
                          !.ok = @ /\ InSrc(m.sp - W) /\ InSrc(m.sp - 1) /\ InDst(m.dp - W) /\ InDst(m.dp - 1)]
Step ==
  \/ /\ m.pc = "align"          \* decide the head byte count
     /\ IF Unal(m.sp) \/ Unal(m.dp)
        THEN LET all == Mod(m.sp, W) # Mod(m.dp, W) \/ (IF m.fwd THEN m.len < W ELSE m.len <= W)
                 t == IF all THEN m.len ELSE IF m.fwd THEN W - Mod(m.sp, W) ELSE Mod(m.sp, W)
             IN m' = [m EXCEPT !.t = t, !.len = @ - t, !.pc = "head", !.lo = @ /\ t > 0]
        ELSE m' = [m EXCEPT !.pc = "words0"]
  \/ /\ m.pc = "head" /\ m.t > 0 /\ (IF m.fwd THEN ByteFwd ELSE ByteBwd)
  \/ /\ m.pc = "head" /\ m.t = 0 /\ m' = [m EXCEPT !.pc = "words0"]
  \/ /\ m.pc = "words0" /\ m' = [m EXCEPT !.t = m.len \div W, !.pc = IF m.len \div W > 0 THEN "words" ELSE "tail0"]
  \/ /\ m.pc = "words" /\ m.t > 0 /\ (IF m.fwd THEN WordFwd ELSE WordBwd)
  \/ /\ m.pc = "words" /\ m.t = 0 /\ m' = [m EXCEPT !.pc = "tail0"]
  \/ /\ m.pc = "tail0" /\ m' = [m EXCEPT !.t = Mod(m.len, W), !.pc = IF Mod(m.len, W) > 0 THEN "tail" ELSE "done"]
  \/ /\ m.pc = "tail" /\ m.t > 0 /\ (IF m.fwd THEN ByteFwd ELSE ByteBwd)
  \/ /\ m.pc = "tail" /\ m.t = 0 /\ m' = [m EXCEPT !.pc = "done"]
Spec == Init /\ [][Step]_m
MoveCorrect == m.pc = "done" => /\ \A j \in 0..(m.len0 - 1) : m.mem[m.d + j] = Pre[m.s + j]
                                /\ \A i \in 1..N : ~InDst(i) => m.mem[i] = Pre[i]
NoEmptyDoLoop == m.lo
InBounds == m.ok
=============================================================================
