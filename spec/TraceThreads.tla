---------------------------- MODULE TraceThreads ----------------------------
(* C12 conformance: every observed single call must leave the library's static storage
   bit-identical (delta = 0), which is the premise Scratch(f) = "auto" of Threads.tla.
   The constraint-handler registration functions are the documented exception and are
   not probed. *)
EXTENDS Naturals, Sequences, TLC, Json, IOUtils
VARIABLES l, bad
T == ndJsonDeserialize(IOEnv.TRACE)
Init == l = 1 /\ bad = <<>>
Next == /\ l <= Len(T) /\ l' = l + 1
        /\ LET e == T[l] IN
           bad' = IF e.e = "call" /\ e.delta # 0
                  THEN Append(bad, [i |-> e.id, why |-> "static_footprint", fn |-> e.fn,
                                    dev |-> IF e.fn = "tmpfile_s" THEN "Dev_tmpfile_counter" ELSE ""])
                  ELSE bad
Spec == Init /\ [][Next]_<<l, bad>>
Report == (l = Len(T) + 1) => PrintT(<<"RESULT", ToJson([n |-> Len(T), bad |-> bad])>>)
=============================================================================
