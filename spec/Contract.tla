------------------------------ MODULE Contract ------------------------------
(* The contract layer: for every call of the single-arena families, the set of
   admitted outcomes, the named deviations (known findings) and the judge that
   attributes a non-conforming observation to the properties it violates. *)
EXTENDS StrCopy, MemOps, StrXform, StrQuery

Outcomes(e) ==
  CASE e.fn \in StrCopyFns -> StrCopyOutcomes(e)
    [] e.fn \in MemOpsFns -> MemOpsOutcomes(e)
    [] e.fn \in StrXformFns -> StrXformOutcomes(e)
    [] e.fn \in StrQueryFns -> StrQueryOutcomes(e)
    [] OTHER -> {}

Deviations(e) ==
  CASE e.fn \in StrCopyFns -> StrCopyDeviations(e)
    [] e.fn \in MemOpsFns -> MemOpsDeviations(e)
    [] e.fn \in StrXformFns -> StrXformDeviations(e)
    [] e.fn \in StrQueryFns -> StrQueryDeviations(e)
    [] OTHER -> {}

Known(e) == e.fn \in StrCopyFns \cup MemOpsFns \cup StrXformFns \cup StrQueryFns

(* functional property of the family the function belongs to *)
Func(fn) == IF fn \in StrQueryFns THEN "C10" ELSE "C06"

ProducesString(fn) == fn \in (StrCopyFns \ {"strcpyfld_s", "strcpyfldin_s"}) \cup {"strnterminate_s"}
InPlaceString(fn) == fn \in StrFillFns \cup (StrXformFns \ {"strnterminate_s"})      \* transforms of an existing string: the terminator must survive
CopyLike(fn) == fn \in StrCopyFns \cup MemCpyFns \cup MemMoveFns \cup {"memccpy_s"}
NoOpByDoc(e) == \/ (e.fn \in {"strcpy_s", "wcscpy_s"} /\ e.d = e.s)
                \/ (e.fn \in StpFns /\ e.flags = 1)
                \/ (e.fn \in MemCpyFns \cup MemMoveFns /\ e.slen = 0)     \* documented: returns EOK at once
                \/ (e.fn \in FldFns /\ e.slen = 0)                      \* documented: EOK when slen = 0
                \/ (e.fn \in MemSetFns /\ e.n = 0 /\ e.d # NULLP)   \* null status out-parameter: nothing is attempted (DESIGN 5a.13)

C03_Direct(e) ==
  /\ (ProducesString(e.fn) /\ DestUsable(e) /\ ~NoOpByDoc(e) /\ e.fault = "none")
        => \E i \in Rng(e.d, e.dmax) : e.post[i] = 0
  /\ (InPlaceString(e.fn) /\ DestUsable(e) /\ e.fault = "none" /\ \E i \in Rng(e.d, e.dmax) : e.pre[i] = 0)
        => \E i \in Rng(e.d, e.dmax) : e.post[i] = 0

Score(e, o) == Cardinality(MisCells(e, o)) + (IF HOK(e, o) THEN 0 ELSE 1) + (IF RetOK(e, o) THEN 0 ELSE 1)
CellTags(e, o) == UNION {o.mem[i].p : i \in MisCells(e, o)}
ErrCodes(outs) == UNION {o.rc : o \in {x \in outs : x.cls = "err"}}

RcBlame(e, outs) ==
  IF e.fn \in StrQueryFns /\ e.hn = 0 /\ \A o \in outs : o.cls = "ok" THEN {"C10"}     \* a query answered with the wrong plain status (found / not found)
  ELSE
  LET okPossible == \E o \in outs : o.cls = "ok"
      exp == ErrCodes(outs)
  IN {"C05"} \cup (IF ~okPossible /\ ESOVRLP \in exp THEN {"C07"} ELSE {})
             \cup (IF okPossible /\ e.rc = ESOVRLP THEN {"C07"} ELSE {})
             \cup (IF ~okPossible /\ e.rc = EOK /\ ESNOSPC \in exp THEN {"C06"} ELSE {})

Blame(e, outs) ==
  LET direct == IF C03_Direct(e) THEN {} ELSE {"C03"}
      b == IF e.fault = "w" THEN (IF e.fnoz THEN {"C05"} ELSE {"C01"})
           ELSE IF e.fault = "r" THEN (IF e.fnoz THEN {"C05"} ELSE {"C02"})
           ELSE IF e.fault = "hang" THEN {Func(e.fn)}
           ELSE IF e.fault # "none" THEN {"C01", Func(e.fn)}
           ELSE IF ~e.frame_ok THEN {"C01"}
           ELSE LET cand == {o \in outs : e.rc \in o.rc}
                IN IF cand = {} THEN RcBlame(e, outs)
                   ELSE LET best == CHOOSE o \in cand : \A p \in cand : Score(e, o) <= Score(e, p)
                        IN CellTags(e, best) \cup (IF HOK(e, best) THEN {} ELSE {"C05"})
                                             \cup (IF RetOK(e, best) THEN {} ELSE best.rtag)
      all == b \cup direct
  IN IF all = {} THEN {Func(e.fn)} ELSE all

Verdict(e) ==
  LET outs == Outcomes(e)
  IN IF \E o \in outs : Matches(e, o) THEN [ok |-> TRUE, props |-> {}, dev |-> ""]
     ELSE LET devs == {x \in Deviations(e) : Matches(e, x.o)}
          IN IF devs # {} THEN LET x == CHOOSE y \in devs : TRUE IN [ok |-> FALSE, props |-> x.props, dev |-> x.name]
             ELSE [ok |-> FALSE, props |-> Blame(e, outs), dev |-> ""]
=============================================================================
