------------------------------ MODULE StrQuery ------------------------------
(* Contracts of the read-only query functions (C10): comparison, search, span, length and
   classification, narrow, wide and memory.  The expected answers are written from the
   definitions of the standard counterparts, restricted to the first dmax elements of dest
   (and slen elements of src); operands are never modified. *)
EXTENDS Base

CmpFns    == {"strcmp_s", "strcasecmp_s", "strcoll_s", "strcmpfld_s", "wcscmp_s", "wcsncmp_s", "wcsicmp_s", "wcscoll_s"}
MemCmpFns == {"memcmp_s", "memcmp16_s", "memcmp32_s", "wmemcmp_s"}
FindFns   == {"strstr_s", "strcasestr_s", "wcsstr_s", "strpbrk_s"}
ChrFns    == {"strchr_s", "strrchr_s", "strfirstchar_s", "strlastchar_s", "memchr_s", "memrchr_s"}
SpanFns   == {"strspn_s", "strcspn_s"}
IdxFns    == {"strfirstdiff_s", "strfirstsame_s", "strlastdiff_s", "strlastsame_s"}
ClassFns  == {"strisalphanumeric_s", "strisascii_s", "strisdigit_s", "strishex_s", "strislowercase_s", "strismixedcase_s", "strisuppercase_s"}
LenFns    == {"strnlen_s", "wcsnlen_s"}
NatFns    == {"strnatcmp_s", "strnatcasecmp_s", "wcsnatcmp_s", "wcsnaticmp_s"}
WNatFns   == {"wcsnatcmp_s", "wcsnaticmp_s"}
StrQueryFns == CmpFns \cup MemCmpFns \cup FindFns \cup ChrFns \cup SpanFns \cup IdxFns \cup ClassFns \cup LenFns \cup NatFns \cup {"strprefix_s", "strispassword_s"}

WithSg(o, k) == [o EXCEPT !.sg = k]
Same0(a) == [i \in 1..Len(a) |-> Same({"C10", "C01"})]          \* operands are never modified
UpA(c) == IF c >= 97 /\ c <= 122 THEN c - 32 ELSE c
Str(a, p, lim) == LET n == ScanLen(a, p, lim) IN [i \in 1..n |-> a[p + i - 1]]   \* characters before the NUL, at most lim
Idx(seq, x) == {i \in 1..Len(seq) : seq[i] = x}
MinS(S) == CHOOSE i \in S : \A j \in S : i <= j
MaxS(S) == CHOOSE i \in S : \A j \in S : i >= j
Mod256(c) == c - 256 * (c \div 256)
Has(seq, x) == \E i \in 1..Len(seq) : seq[i] = x

(* violations common to the queries; flags = 1: the result out-parameter is NULL *)
QViol(e, needsrc, hasslen) ==
       {c \in {ESNULLP} : e.flags = 1 \/ e.d = NULLP \/ (needsrc /\ e.s = NULLP)}
  \cup {c \in {ESZEROL} : e.dmax = 0 \/ (hasslen /\ e.slen = 0)}
  \cup {c \in {ESLEMAX} : e.dmax = HUGE \/ (hasslen /\ e.slen = HUGE)}
  \cup {c \in {EOVERFLOW} : e.dbos # UNK /\ e.dmax # HUGE /\ e.dmax > e.dbos}
  \cup {c \in {EOVERFLOW, ESLEMAX} : hasslen /\ e.sbos # UNK /\ (e.slen = HUGE \/ e.slen > e.sbos)}
QErrs(e, V) == {[ErrOut(c, Same0(e.pre)) EXCEPT !.ret = {0, -3, -1}] : c \in V}
QOk(e) == [OkOut(Same0(e.pre)) EXCEPT !.rtag = {"C10"}]
QStatus(e, rc) == [StatusOut(rc, Same0(e.pre)) EXCEPT !.rtag = {"C10"}]

(* ---- comparisons: sign of the first differing pair within the first n elements ---- *)
LowA(c) == IF c >= 65 /\ c <= 90 THEN c + 32 ELSE c
FoldA(c, fold) == IF fold = "lower" THEN LowA(c) ELSE IF fold = "upper" THEN UpA(c) ELSE c
RECURSIVE CmpStr(_, _, _, _, _)
CmpStr(a, d, s, n, fold) ==     \* strcmp semantics, elements as unsigned values; fold: "none", "lower" (strcasecmp, wcscasecmp: as if
  IF n = 0 THEN 0               \* converted to lowercase), "upper" (what strcasecmp_s documents and does: see Dev_strcasecmp_upper)
  ELSE LET x == FoldA(a[d], fold)
           y == FoldA(a[s], fold)
       IN IF x # y THEN Sgn(x - y) ELSE IF a[d] = 0 THEN 0 ELSE CmpStr(a, d + 1, s + 1, n - 1, fold)
RECURSIVE CmpMem(_, _, _, _)
CmpMem(a, d, s, n) == IF n = 0 THEN 0 ELSE IF a[d] # a[s] THEN Sgn(a[d] - a[s]) ELSE CmpMem(a, d + 1, s + 1, n - 1)

CmpOutcomes(e) ==
  LET hass == e.fn \in {"wcscmp_s", "wcsncmp_s", "wcsicmp_s", "wcscoll_s"}
      V == QViol(e, TRUE, hass)
      n0 == IF hass THEN Min(e.dmax, e.slen) ELSE e.dmax
      n == IF e.fn = "wcsncmp_s" /\ e.n # HUGE THEN Min(n0, e.n) ELSE n0
  IN IF V # {} THEN QErrs(e, V)
     ELSE IF e.fn = "wcsncmp_s" /\ e.n = HUGE THEN {WithSg(QOk(e), 2)} \cup QErrs(e, {ESLEMAX})
     ELSE IF e.fn = "strcmpfld_s" THEN {WithSg(QOk(e), CmpMem(e.pre, e.d, e.s, e.dmax))}
     ELSE {WithSg(QOk(e), CmpStr(e.pre, e.d, e.s, n, IF e.fn \in {"strcasecmp_s", "wcsicmp_s"} THEN "lower" ELSE "none"))}
          \* documented for strcmp_s: ESUNTERM when src is unterminated - detectable only with a known object size of src,
          \* when the comparison would have to run past it
          \cup (IF e.fn = "strcmp_s" /\ e.sbos # UNK /\ e.sbos > 0 /\ ScanLen(e.pre, e.s, e.sbos) >= e.sbos
                   /\ CmpStr(e.pre, e.d, e.s, Min(n, e.sbos), "none") = 0 /\ n >= e.sbos
                THEN QErrs(e, {ESUNTERM}) ELSE {})
          \* wcsicmp_s folds each operand into a scratch string of twice its bound first: an operand with no terminator
          \* inside its bound cannot be folded and is reported (ESNOSPC, from wcsfc_s) - admitted next to the bounded answer
          \cup (IF e.fn = "wcsicmp_s" /\ (ScanLen(e.pre, e.d, e.dmax) >= e.dmax \/ ScanLen(e.pre, e.s, e.slen) >= e.slen)
                THEN QErrs(e, {ESNOSPC}) ELSE {})

(* ---- natural-order comparison (Martin Pool's strnatcmp, which strnatcmp_s documents as its origin), transcribed:
        white space is skipped, a run of digits in both strings at the same point is compared as a number - left-aligned
        ("fractional": the first different digit decides) when either run starts with '0', right-aligned otherwise (the
        longer run wins, else the first different digit) - other characters compare by value (upper-cased when folding).
        A and B are the characters before the terminators; positions behind the end read as the terminator. ---- *)
IsSp(c) == c = 32 \/ (c >= 9 /\ c <= 13)
IsDg(c) == c >= 48 /\ c <= 57
At0(q, i) == IF i <= Len(q) THEN q[i] ELSE 0
RECURSIVE SkipSp(_, _)
SkipSp(q, i) == IF IsSp(At0(q, i)) THEN SkipSp(q, i + 1) ELSE i
RECURSIVE NatRight(_, _, _, _, _)
NatRight(A, i, B, j, bias) ==
  LET a == At0(A, i)  b == At0(B, j) IN
  IF ~IsDg(a) /\ ~IsDg(b) THEN bias ELSE IF ~IsDg(a) THEN -1 ELSE IF ~IsDg(b) THEN 1
  ELSE NatRight(A, i + 1, B, j + 1, IF bias # 0 THEN bias ELSE IF a < b THEN -1 ELSE IF a > b THEN 1 ELSE 0)
RECURSIVE NatLeft(_, _, _, _)
NatLeft(A, i, B, j) ==
  LET a == At0(A, i)  b == At0(B, j) IN
  IF ~IsDg(a) /\ ~IsDg(b) THEN 0 ELSE IF ~IsDg(a) THEN -1 ELSE IF ~IsDg(b) THEN 1
  ELSE IF a < b THEN -1 ELSE IF a > b THEN 1 ELSE NatLeft(A, i + 1, B, j + 1)
RECURSIVE NatCmp(_, _, _, _, _)
NatCmp(A, i0, B, j0, fold) ==      \* fold: "none", "upper" (strnatcasecmp_s: toupper), "lower" (wcsnaticmp_s: the case folding of wcsfc_s)
  LET i == SkipSp(A, i0)  j == SkipSp(B, j0)
      a == At0(A, i)  b == At0(B, j)
      r == IF IsDg(a) /\ IsDg(b) THEN (IF a = 48 \/ b = 48 THEN NatLeft(A, i, B, j) ELSE NatRight(A, i, B, j, 0)) ELSE 0
      x == FoldA(a, fold)
      y == FoldA(b, fold)
  IN IF r # 0 THEN r ELSE IF a = 0 /\ b = 0 THEN 0 ELSE IF x < y THEN -1 ELSE IF x > y THEN 1 ELSE NatCmp(A, i + 1, B, j + 1, fold)
NatOutcomes(e) ==
  LET wide == e.fn \in WNatFns
      V == QViol(e, TRUE, wide)
      D == Str(e.pre, e.d, e.dmax)
      S == Str(e.pre, e.s, IF wide THEN e.slen ELSE Len(e.pre))          \* the narrow source has no bound of its own: up to its terminator
      fold == IF e.fn = "strnatcasecmp_s" THEN "upper" ELSE IF e.fn = "wcsnaticmp_s" THEN "lower" ELSE "none"
      anysign == {WithSg(QOk(e), k) : k \in {-1, 0, 1}}
  IN IF V # {} THEN QErrs(e, V)
     ELSE IF Len(D) >= e.dmax THEN anysign       \* no terminator inside dmax: the answer for the dmax elements is not defined by the original; any sign, no read behind them
                                   \cup (IF wide THEN QErrs(e, {ESNOSPC, ESUNTERM}) ELSE {})
     ELSE IF wide /\ Len(S) >= e.slen THEN anysign \cup QErrs(e, {ESUNTERM, ESNOSPC})       \* documented: src unterminated
     ELSE {WithSg(QOk(e), NatCmp(D, 1, S, 1, fold))}
          \cup (IF e.sbos # UNK /\ e.sbos > 0 /\ ScanLen(e.pre, e.s, e.sbos) >= e.sbos THEN QErrs(e, {ESUNTERM}) ELSE {})

MemCmpOutcomes(e) ==
  LET V == QViol(e, TRUE, TRUE) IN
  IF V # {} THEN QErrs(e, V)
  ELSE IF e.slen > e.dmax THEN QErrs(e, {ESNOSPC})
  ELSE {WithSg(QOk(e), CmpMem(e.pre, e.d, e.s, e.slen))}

(* ---- searches ---- *)
MatchAt(D, S, i, fold) == i + Len(S) - 1 <= Len(D) /\ \A j \in 1..Len(S) : (IF fold THEN UpA(D[i + j - 1]) = UpA(S[j]) ELSE D[i + j - 1] = S[j])
FindOutcomes(e) ==
  LET V == QViol(e, TRUE, TRUE)
      \* the slen constraints (zero, above the limit, above the known size of src) may be pre-empted by the empty needle, which the
      \* search functions look for first ("slen shall not be 0, when *src != 0"); every other violation comes first
      Vslen == {ESZEROL, ESLEMAX} \cup (IF e.sbos # UNK /\ (e.slen = HUGE \/ e.slen > e.sbos) /\ e.s # NULLP /\ e.d # NULLP /\ e.flags = 0
                                           /\ (e.dbos = UNK \/ e.dmax = HUGE \/ e.dmax <= e.dbos) /\ e.fn # "strpbrk_s" /\ e.pre[e.s] = 0 THEN {EOVERFLOW} ELSE {})
  IN
  IF (V \ Vslen # {} \/ e.dmax = 0 \/ e.dmax = HUGE) \/ (e.slen = HUGE /\ (e.pre[e.s] # 0 \/ e.fn = "strpbrk_s")) THEN QErrs(e, V)
  ELSE LET D == Str(e.pre, e.d, e.dmax)
           S == Str(e.pre, e.s, e.slen)
           notf == WithRet(QStatus(e, ESNOTFND), {0})
       IN IF e.fn = "strpbrk_s" THEN
             (IF e.slen = 0 THEN QErrs(e, {ESZEROL})
              ELSE LET hits == {i \in 1..Len(D) : Has(S, D[i])} IN
                   IF hits = {} THEN {notf} ELSE {WithRet(QOk(e), {e.d + MinS(hits) - 1})})
          ELSE IF e.pre[e.s] = 0 \/ (S = <<>> /\ e.slen # 0) THEN    \* empty needle: found at dest (documented: checked before slen; a bad slen may also be reported)
               {WithRet(QOk(e), {e.d})} \cup QErrs(e, V \cup {x \in {ESNOTFND} : e.slen # HUGE /\ e.slen > e.dmax})
          ELSE IF e.slen = 0 THEN QErrs(e, {ESZEROL})
          ELSE LET hits == {i \in 1..Len(D) : MatchAt(D, S, i, e.fn = "strcasestr_s")} IN
               IF hits = {} THEN {notf} \cup (IF e.slen > e.dmax THEN QErrs(e, {ESNOTFND}) ELSE {})
               ELSE {WithRet(QOk(e), {e.d + MinS(hits) - 1})}

ChrOutcomes(e) ==
  LET V == QViol(e, FALSE, FALSE) \cup {c \in {ESLEMAX} : (e.c > 255 \/ e.c < 0) /\ e.fn \notin {"strfirstchar_s", "strlastchar_s"}} IN   \* (their parameter is a char)
  IF V # {} THEN QErrs(e, V)
  ELSE LET ismem == e.fn \in {"memchr_s", "memrchr_s"}
           D == IF ismem THEN [i \in 1..e.dmax |-> e.pre[e.d + i - 1]]
                ELSE LET n == ScanLen(e.pre, e.d, e.dmax) IN [i \in 1..Min(n + 1, e.dmax) |-> e.pre[e.d + i - 1]]   \* incl. the terminator (strchr)
           Dn == IF e.fn \in {"strfirstchar_s", "strlastchar_s"} THEN Str(e.pre, e.d, e.dmax) ELSE D
           hits == Idx(Dn, IF e.fn \in {"strfirstchar_s", "strlastchar_s"} THEN Mod256(e.c) ELSE e.c)
           last == e.fn \in {"strrchr_s", "strlastchar_s", "memrchr_s"}
           notf == WithRet(QStatus(e, ESNOTFND), {0})
       IN IF e.fn = "strrchr_s" /\ ScanLen(e.pre, e.d, e.dmax) = 0 THEN {WithRet(QStatus(e, ESZEROL), {0})}      \* documented: empty string
          ELSE IF hits = {} THEN {notf}
          ELSE {WithRet(QOk(e), {e.d + (IF last THEN MaxS(hits) ELSE MinS(hits)) - 1})}

RECURSIVE SpanLen(_, _, _, _)
SpanLen(D, S, i, want) == IF i > Len(D) \/ (Has(S, D[i]) # want) THEN 0 ELSE 1 + SpanLen(D, S, i + 1, want)
SpanOutcomes(e) ==
  LET V == QViol(e, TRUE, TRUE) IN
  IF V # {} THEN QErrs(e, V)
  ELSE LET D == Str(e.pre, e.d, e.dmax)  S == Str(e.pre, e.s, e.slen)
       IN {WithO1(QOk(e), {SpanLen(D, S, 1, e.fn = "strspn_s")})}

IdxOutcomes(e) ==
  LET V == QViol(e, TRUE, FALSE) IN
  IF V # {} THEN QErrs(e, V)
  ELSE LET D == Str(e.pre, e.d, e.dmax)  S == Str(e.pre, e.s, e.dmax)
           n == Min(Len(D), Len(S))
           same == e.fn \in {"strfirstsame_s", "strlastsame_s"}
           hits == {i \in 1..n : (D[i] = S[i]) = same}
           none == IF same THEN ESNOTFND ELSE ESNODIFF
       IN IF hits = {} THEN {QStatus(e, none)}
          ELSE {WithO1(QOk(e), {(IF e.fn \in {"strlastdiff_s", "strlastsame_s"} THEN MaxS(hits) ELSE MinS(hits)) - 1})}

PrefixOutcomes(e) ==
  LET V == QViol(e, TRUE, FALSE) IN
  IF V # {} THEN QErrs(e, V)
  ELSE LET D == Str(e.pre, e.d, e.dmax)  S == Str(e.pre, e.s, e.dmax) IN
       IF S = <<>> THEN {QStatus(e, ESNOTFND)}                                   \* documented
       ELSE IF MatchAt(D, S, 1, FALSE) \/ (Len(S) >= e.dmax /\ Len(D) >= e.dmax /\ D = SubSeq(S, 1, Len(D))) THEN {QOk(e)} ELSE {QStatus(e, ESNOTFND)}

InClass(fn, c) ==
  CASE fn = "strisalphanumeric_s" -> (c >= 48 /\ c <= 57) \/ (c >= 97 /\ c <= 122) \/ (c >= 65 /\ c <= 90)
    [] fn = "strisascii_s" -> c <= 127
    [] fn = "strisdigit_s" -> c >= 48 /\ c <= 57
    [] fn = "strishex_s" -> (c >= 48 /\ c <= 57) \/ (c >= 97 /\ c <= 102) \/ (c >= 65 /\ c <= 70)
    [] fn = "strislowercase_s" -> c >= 97 /\ c <= 122
    [] fn = "strismixedcase_s" -> (c >= 97 /\ c <= 122) \/ (c >= 65 /\ c <= 90)
    [] fn = "strisuppercase_s" -> c >= 65 /\ c <= 90
ClassOutcomes(e) ==
  LET V == QViol(e, FALSE, FALSE) \ (IF e.flags = 1 THEN {ESNULLP} ELSE {}) IN
  IF V # {} \/ e.d = NULLP THEN {WithO1(Out("err", {NOSTAT}, {<<c>>}, Same0(e.pre)), {0}) : c \in V \cup {x \in {ESNULLP} : e.d = NULLP}}
  ELSE LET D == Str(e.pre, e.d, e.dmax) IN
       {WithO1([StatusOut(NOSTAT, Same0(e.pre)) EXCEPT !.rtag = {"C10"}],
               {IF (D # <<>> \/ e.fn = "strisascii_s") /\ \A i \in 1..Len(D) : InClass(e.fn, D[i]) THEN 1 ELSE 0})}

LenOutcomes(e) ==
  LET V == ({c \in {ESNULLP} : e.d = NULLP} \cup {c \in {ESZEROL} : e.dmax = 0} \cup {c \in {ESLEMAX} : e.dmax = HUGE}) IN
  IF V # {} THEN {WithO1(Out("err", {NOSTAT}, {<<c>>}, Same0(e.pre)), {0}) : c \in V}
                   \cup (IF e.fn = "wcsnlen_s" /\ e.d = NULLP THEN {WithO1(StatusOut(NOSTAT, Same0(e.pre)), {0})} ELSE {})   \* documented: NULL -> 0
  ELSE \* documented: "At most the first smax or sizeof(str) characters of str are accessed": a known object size below smax bounds the scan
       LET lim == IF e.dbos # UNK /\ e.dbos < e.dmax THEN e.dbos ELSE e.dmax
       IN {WithO1([StatusOut(NOSTAT, Same0(e.pre)) EXCEPT !.rtag = {"C10"}], {ScanLen(e.pre, e.d, lim)})}

(* ---- strispassword_s: the documented make-up rule.  6 <= dmax <= 32; at least 2 lower case, 2 upper case, 1 digit and 1
   special character (printable ASCII that is none of the former), nothing else, fewer than 32 characters ---- *)
PwMin == 6  PwMax == 32
PasswordOutcomes(e) ==
  LET V == {c \in {ESNULLP} : e.d = NULLP} \cup {c \in {ESZEROL, ESLEMIN} : e.dmax = 0}
           \cup {c \in {ESLEMAX} : e.dmax = HUGE \/ e.dmax > PwMax} \cup {c \in {ESLEMIN} : e.dmax # HUGE /\ e.dmax > 0 /\ e.dmax < PwMin}
           \cup {c \in {EOVERFLOW} : e.dbos # UNK /\ e.dmax # HUGE /\ e.dmax > e.dbos}
      bool(b) == WithO1([StatusOut(NOSTAT, Same0(e.pre)) EXCEPT !.rtag = {"C10"}], {IF b THEN 1 ELSE 0})
  IN IF V # {} THEN {WithO1(Out("err", {NOSTAT}, {<<c>>}, Same0(e.pre)), {0}) : c \in V}
     ELSE LET D == Str(e.pre, e.d, e.dmax)
              cnt(lo, hi) == Cardinality({i \in 1..Len(D) : D[i] >= lo /\ D[i] <= hi})
              legal == \A i \in 1..Len(D) : D[i] >= 33 /\ D[i] <= 126
              specials == Len(D) - cnt(48, 57) - cnt(97, 122) - cnt(65, 90)
          IN IF Len(D) = e.dmax /\ legal THEN {WithO1(Out("err", {NOSTAT}, {<<ESUNTERM>>}, Same0(e.pre)), {0})}      \* no terminator within dmax
             ELSE IF Len(D) = e.dmax THEN {WithO1(Out("err", {NOSTAT}, {<<ESUNTERM>>}, Same0(e.pre)), {0}), bool(FALSE)}   \* an illegal character may be met first
             ELSE {bool(legal /\ Len(D) >= 1 /\ cnt(48, 57) >= 1 /\ cnt(97, 122) >= 2 /\ cnt(65, 90) >= 2 /\ specials >= 1)}
StrQueryOutcomes(e) ==
  CASE e.fn \in CmpFns -> CmpOutcomes(e)
    [] e.fn \in MemCmpFns -> MemCmpOutcomes(e)
    [] e.fn \in FindFns -> FindOutcomes(e)
    [] e.fn \in ChrFns -> ChrOutcomes(e)
    [] e.fn \in SpanFns -> SpanOutcomes(e)
    [] e.fn \in IdxFns -> IdxOutcomes(e)
    [] e.fn \in ClassFns -> ClassOutcomes(e)
    [] e.fn \in LenFns -> LenOutcomes(e)
    [] e.fn \in NatFns -> NatOutcomes(e)
    [] e.fn = "strprefix_s" -> PrefixOutcomes(e)
    [] e.fn = "strispassword_s" -> PasswordOutcomes(e)
(* Known finding: strcoll_s hands both strings to libc strcoll unbounded: dmax is ignored. *)
PwViol(e) == e.d = NULLP \/ e.dmax = 0 \/ e.dmax = HUGE \/ e.dmax > PwMax \/ e.dmax < PwMin \/ (e.dbos # UNK /\ e.dmax > e.dbos)
\* the sign an unbounded comparison arrives at: decided inside the arena, or - when both strings run on equal and unterminated
\* up to the end of the arena - by whatever lies behind it (any sign, unless the read faults)
UnboundedSigns(e) ==
  LET n == Len(e.pre) - Max(e.d, e.s) + 1
      ranoff == \A k \in 0..(n - 1) : e.pre[e.d + k] = e.pre[e.s + k] /\ e.pre[e.d + k] # 0
  IN IF ranoff THEN {-1, 0, 1} ELSE {CmpStr(e.pre, e.d, e.s, n, "none")}
StrQueryDeviations(e) ==
  IF e.fn = "strispassword_s" /\ ~PwViol(e) /\ Len(Str(e.pre, e.d, e.dmax)) = e.dmax
  THEN \* Known finding: the loop looks at dest[dmax] before it notices that dmax is used up (the unit tests pass dmax = strlen(dest)):
       \* a terminator exactly at dest[dmax] is accepted and the string judged; otherwise dest[dmax] is read
       LET D == Str(e.pre, e.d, e.dmax)
           cnt(lo, hi) == Cardinality({i \in 1..Len(D) : D[i] >= lo /\ D[i] <= hi})
           legal == \A i \in 1..Len(D) : D[i] >= 33 /\ D[i] <= 126
           specials == Len(D) - cnt(48, 57) - cnt(97, 122) - cnt(65, 90)
           good == legal /\ Len(D) < PwMax /\ cnt(48, 57) >= 1 /\ cnt(97, 122) >= 2 /\ cnt(65, 90) >= 2 /\ specials >= 1
       IN {[name |-> "Dev_password_term_at_dmax", props |-> {"C02"},
            o |-> WithFault(Out("err", {-9999, NOSTAT}, {<<>>}, Same0(e.pre)), "r", {AnyV})]} \cup
          (IF e.d + e.dmax <= Len(e.pre) /\ e.pre[e.d + e.dmax] = 0
           THEN {[name |-> "Dev_password_term_at_dmax", props |-> {"C02", "C05", "C10"},
                  o |-> WithO1([StatusOut(NOSTAT, Same0(e.pre)) EXCEPT !.rtag = {"C10"}], {IF good THEN 1 ELSE 0})]}
           ELSE {})
  ELSE IF e.fn = "strcasecmp_s" /\ QViol(e, TRUE, FALSE) = {}
          /\ CmpStr(e.pre, e.d, e.s, e.dmax, "upper") # CmpStr(e.pre, e.d, e.s, e.dmax, "lower")
  THEN \* Known finding: the characters are upper-cased before the comparison (documented, and the unit test pins the exact
       \* difference '1' - 'I'); strcasecmp compares as if lower-cased: the sign differs when the first difference is a letter
       \* against one of [ \ ] ^ _ `
       {[name |-> "Dev_strcasecmp_upper", props |-> {"C10"},
         o |-> WithSg(QOk(e), CmpStr(e.pre, e.d, e.s, e.dmax, "upper"))]}
  ELSE IF e.fn = "wcscoll_s" /\ QViol(e, TRUE, TRUE) = {}
  THEN \* the same for the wide function: libc wcscoll on both strings, dmax and smax ignored
       {[name |-> "Dev_wcscoll_unbounded", props |-> {"C10", "C02"}, o |-> WithSg(QOk(e), k)] : k \in UnboundedSigns(e)} \cup {
        [name |-> "Dev_wcscoll_unbounded", props |-> {"C02"},
         o |-> WithFault(Out("err", {-9999}, {<<>>}, Same0(e.pre)), "r", {AnyV})]}
  ELSE IF e.fn = "strcoll_s" /\ QViol(e, TRUE, FALSE) = {}
  THEN {[name |-> "Dev_strcoll_unbounded", props |-> {"C10", "C02"}, o |-> WithSg(QOk(e), k)] : k \in UnboundedSigns(e)} \cup {
        [name |-> "Dev_strcoll_unbounded", props |-> {"C02"},
         o |-> WithFault(Out("err", {-9999}, {<<>>}, Same0(e.pre)), "r", {AnyV})]}
  ELSE {}
=============================================================================
