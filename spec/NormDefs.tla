------------------------------ MODULE NormDefs ------------------------------
(* UAX #15 written directly: full canonical decomposition (recursive, plus the Hangul
   arithmetic), canonical ordering (stable by combining class) and canonical composition
   with the blocking rule.  The tables DecompSet, CCCSet and CompSet (primary composites,
   i.e. without the composition exclusions) are generated from python3's unicodedata
   (Unicode 14.0) into UCD14.tla by lib/ucdgen.py. *)
EXTENDS Naturals, Sequences, FiniteSets, TLC, UCD14

Decomp == [p \in {q[1] : q \in DecompSet} |-> (CHOOSE q \in DecompSet : q[1] = p)[2]]
CCCf   == [p \in {q[1] : q \in CCCSet} |-> (CHOOSE q \in CCCSet : q[1] = p)[2]]
CompKey(a, b) == a * 2097152 + b   \* would overflow 32-bit; use pair tuple instead
Comp   == [p \in {<<q[1], q[2]>> : q \in CompSet} |-> (CHOOSE q \in CompSet : q[1] = p[1] /\ q[2] = p[2])[3]]

Mod(a, b) == a - b * (a \div b)
SBase == 44032  LBase == 4352  VBase == 4449  TBase == 4519
LCount == 19  VCount == 21  TCount == 28  NCount == 588  SCount == 11172
IsS(c) == c >= SBase /\ c < SBase + SCount

CCC(c) == IF c \in DOMAIN CCCf THEN CCCf[c] ELSE 0

RECURSIVE DecompCP(_)
DecompCP(c) ==
  IF IsS(c) THEN
     LET si == c - SBase
         l == LBase + si \div NCount
         v == VBase + Mod(si, NCount) \div TCount
         t == TBase + Mod(si, TCount)
     IN IF t = TBase THEN <<l, v>> ELSE <<l, v, t>>
  ELSE IF c \in DOMAIN Decomp THEN
     LET d == Decomp[c] IN
       IF Len(d) = 1 THEN DecompCP(d[1]) ELSE DecompCP(d[1]) \o DecompCP(d[2])
  ELSE <<c>>

RECURSIVE DecompStr(_)
DecompStr(s) == IF s = <<>> THEN <<>> ELSE DecompCP(Head(s)) \o DecompStr(Tail(s))

\* canonical ordering: stable insertion sort of runs of non-starters
RECURSIVE InsertCC(_, _)
InsertCC(sorted, c) ==  \* insert c after all elements with ccc <= ccc(c) but not before a starter
  IF sorted = <<>> THEN <<c>>
  ELSE LET lastc == sorted[Len(sorted)] IN
       IF CCC(c) # 0 /\ CCC(lastc) > CCC(c)
       THEN Append(InsertCC(SubSeq(sorted, 1, Len(sorted) - 1), c), lastc)
       ELSE Append(sorted, c)
RECURSIVE Reorder(_, _)
Reorder(acc, s) == IF s = <<>> THEN acc ELSE Reorder(InsertCC(acc, Head(s)), Tail(s))

NFD(s) == Reorder(<<>>, DecompStr(s))

ComposePair(a, b) ==
  IF a >= LBase /\ a < LBase + LCount /\ b >= VBase /\ b < VBase + VCount
    THEN SBase + ((a - LBase) * VCount + (b - VBase)) * TCount
  ELSE IF IsS(a) /\ Mod(a - SBase, TCount) = 0 /\ b > TBase /\ b < TBase + TCount
    THEN a + (b - TBase)
  ELSE IF <<a, b>> \in DOMAIN Comp THEN Comp[<<a, b>>] ELSE 0

\* canonical composition over an NFD string. state: out (sequence), starter index in out (0 none), last ccc
RECURSIVE ComposeRec(_, _, _, _)
ComposeRec(out, sidx, lastcc, rest) ==
  IF rest = <<>> THEN out
  ELSE LET c == Head(rest)
           cc == CCC(c)
           blocked == sidx # 0 /\ Len(out) > sidx /\ (lastcc >= cc)   \* something between starter and c with ccc >= cc (or ccc=0)
           p == IF sidx # 0 /\ ~blocked THEN ComposePair(out[sidx], c) ELSE 0
       IN IF p # 0
          THEN ComposeRec([out EXCEPT ![sidx] = p], sidx, lastcc, Tail(rest))
          ELSE IF cc = 0
               THEN ComposeRec(Append(out, c), Len(out) + 1, 0, Tail(rest))
               ELSE ComposeRec(Append(out, c), sidx, cc, Tail(rest))
NFC(s) == ComposeRec(<<>>, 0, 0, NFD(s))


Scalar(c) == c >= 0 /\ c <= 1114111 /\ ~(c >= 55296 /\ c <= 57343)
=============================================================================
