---------------------------- MODULE SortContract ----------------------------
(* the qsort_s / bsearch_s contract operators (no state): shared by Sort.tla and TraceSort.tla *)
EXTENDS Naturals, Sequences, FiniteSets
CONSTANT Keys
Sorted(k) == \A i \in 1..(Len(k) - 1) : k[i] <= k[i + 1]
Count(s, x) == Cardinality({i \in 1..Len(s) : s[i] = x})
SameMultiset(a, b) == Len(a) = Len(b) /\ \A x \in Keys \cup {a[i] : i \in 1..Len(a)} : Count(a, x) = Count(b, x)
(* tags: tags[i] = original index (0-based) of the element now at position i; a permutation of 0..n-1 whose keys match *)
IsPermutation(pre, post, tags) ==
  /\ Len(post) = Len(pre) /\ Len(tags) = Len(pre)
  /\ \A i \in 1..Len(pre) : tags[i] \in 0..(Len(pre) - 1) /\ post[i] = pre[tags[i] + 1]
  /\ \A i, j \in 1..Len(pre) : i # j => tags[i] # tags[j]
QsortOK(pre, post, tags, hastags) == Sorted(post) /\ (IF hastags THEN IsPermutation(pre, post, tags) ELSE SameMultiset(pre, post))
BsearchOK(arr, key, ret) == IF \E i \in 1..Len(arr) : arr[i] = key THEN ret \in 1..Len(arr) /\ arr[ret] = key ELSE ret = 0

=============================================================================
