------------------------------- MODULE Smooth -------------------------------
(* C16, algorithm layer: qsort_s's smoothsort (src/misc/qsort_s.c, taken from musl) transcribed with the element
   width 1, i.e. on indices.  The main loop is the state machine (one step per pass of either while loop, as in
   the code: build phase, the trinkle between the phases, dismantling phase); sift, trinkle and cycle are operators
   that follow the C functions statement by statement: the array ar[] of positions collected on the way down, the
   comparisons against ar[0] (the element that is being moved, still in place), the rotation at the end.
   p is the two-word bit set of the code as one natural number (the arrays here are far shorter than 64 elements);
   pshift the order of the rightmost Leonardo heap; LP the Leonardo numbers lp[] for width 1.

   TLC runs it on every array of at most MaxN keys from Keys and checks
     Sorted     - at the end the array is ordered and a permutation of the input,
     InHeapArea - every position sift / trinkle touch lies inside the array (an index outside it is an evaluation
                  error in TLC, this is the explicit form),
     Decreasing - head moves monotonically (up while building, down while dismantling),
     Terminates - under weak fairness of the loop every run reaches the end (FairSpec).
   The constant Variant selects the code ("code") or one of two seeded changes of it that the unit tests pass -
   the stepson-versus-children test skipped for order-2 heaps ("order2", wrong from 8 elements on) and the wrong
   "is this the final heap of its size" test ("finalheap") - which TLC has to reject; the driver runs those as a
   self-test of the invariants.  The binding to the compiled function is by the contract layer (Sort.tla,
   TraceSort.tla): the same arrays are sorted by qsort_s for a range of element widths and judged there. *)
EXTENDS Naturals, Sequences, FiniteSets, TLC
CONSTANTS MaxN, Keys, Variant
VARIABLES a, a0, head, p, pshift, phase

RECURSIVE Pow2(_)
Pow2(k) == IF k = 0 THEN 1 ELSE 2 * Pow2(k - 1)
Mod(x, m) == x - m * (x \div m)
Shl(x, k) == x * Pow2(k)
Shr(x, k) == x \div Pow2(k)
RECURSIVE Ntz(_)
Ntz(x) == IF x = 0 THEN 64 ELSE IF Mod(x, 2) = 1 THEN 0 ELSE 1 + Ntz(x \div 2)
Pntz(x) == Ntz(x - 1)                                  \* (the second word is always 0 here; called with x - 1 even and non-zero)
Xor7(x) == (x \div 8) * 8 + (7 - Mod(x, 8))
RECURSIVE LPn(_)
LPn(i) == IF i <= 1 THEN 1 ELSE LPn(i - 2) + LPn(i - 1) + 1
LP(i) == LPn(i)

N == Len(a0)
At(arr, i) == arr[i + 1]                                \* C indices 0..n-1
Put(arr, i, v) == [arr EXCEPT ![i + 1] = v]

(* cycle: ar[0] <- ar[1] <- ... <- ar[k-1] <- old ar[0] *)
Cycle(arr, ar) ==
  IF Len(ar) < 2 THEN arr
  ELSE [j \in 1..Len(arr) |->
          LET hit == {k \in 1..Len(ar) : ar[k] + 1 = j} IN
          IF hit = {} THEN arr[j]
          ELSE LET k == CHOOSE x \in hit : TRUE IN IF k < Len(ar) THEN At(arr, ar[k + 1]) ELSE At(arr, ar[1])]

RECURSIVE SiftPath(_, _, _, _, _)
SiftPath(arr, root, hd, ps, ar) ==
  IF ps > 1 THEN
    LET rt == hd - 1
        lf == hd - 1 - LP(ps - 2)
    IN IF At(arr, root) >= At(arr, lf) /\ At(arr, root) >= At(arr, rt) THEN ar
       ELSE IF At(arr, lf) >= At(arr, rt) THEN SiftPath(arr, root, lf, ps - 1, Append(ar, lf))
       ELSE SiftPath(arr, root, rt, ps - 2, Append(ar, rt))
  ELSE ar
Sift(arr, hd, ps) == Cycle(arr, SiftPath(arr, hd, hd, ps, <<hd>>))

(* trinkle: the walk over the stepsons; result = the positions collected, where it stopped and whether the heap there is trusty *)
ChildLimit == IF Variant = "order2" THEN 2 ELSE 1
RECURSIVE TrinklePath(_, _, _, _, _, _, _)
TrinklePath(arr, root, hd, pp, ps, trusty, ar) ==
  IF pp # 1 THEN
    LET stepson == hd - LP(ps) IN
    IF At(arr, stepson) <= At(arr, root) THEN [ar |-> ar, hd |-> hd, ps |-> ps, trusty |-> trusty]
    ELSE IF ~trusty /\ ps > ChildLimit /\ (At(arr, hd - 1) >= At(arr, stepson) \/ At(arr, hd - 1 - LP(ps - 2)) >= At(arr, stepson))
         THEN [ar |-> ar, hd |-> hd, ps |-> ps, trusty |-> trusty]
    ELSE LET trail == Pntz(pp) IN TrinklePath(arr, root, stepson, Shr(pp, trail), ps + trail, FALSE, Append(ar, stepson))
  ELSE [ar |-> ar, hd |-> hd, ps |-> ps, trusty |-> trusty]
Trinkle(arr, hd, pp, ps, trusty) ==
  LET r == TrinklePath(arr, hd, hd, pp, ps, trusty, <<hd>>)
  IN IF ~r.trusty THEN Sift(Cycle(arr, r.ar), r.hd, r.ps) ELSE arr

RECURSIVE Arrays(_)
Arrays(k) == IF k = 0 THEN {<<>>} ELSE LET S == Arrays(k - 1) IN S \cup {Append(x, c) : x \in {t \in S : Len(t) = k - 1}, c \in Keys}

Init == /\ a0 \in Arrays(MaxN) /\ a = a0 /\ head = 0 /\ p = 1 /\ pshift = 1
        /\ phase = IF Len(a0) = 0 THEN "done" ELSE "build"
High == N - 1
FinalHeap == IF Variant = "finalheap" THEN LP(pshift - 1) > High - head ELSE LP(pshift - 1) >= High - head
Build ==
  /\ phase = "build"
  /\ IF head < High THEN
       /\ IF Mod(p, 4) = 3
          THEN /\ a' = Sift(a, head, pshift)
               /\ p' = Shr(p, 2) + (IF Mod(Shr(p, 2), 2) = 0 THEN 1 ELSE 0)       \* shr(p, 2); ...; p[0] |= 1
               /\ pshift' = pshift + 2
          ELSE /\ a' = IF FinalHeap THEN Trinkle(a, head, p, pshift, FALSE) ELSE Sift(a, head, pshift)
               /\ LET q == IF pshift = 1 THEN Shl(p, 1) ELSE Shl(p, pshift - 1) IN p' = q + (IF Mod(q, 2) = 0 THEN 1 ELSE 0)
               /\ pshift' = IF pshift = 1 THEN 0 ELSE 1
       /\ head' = head + 1 /\ UNCHANGED <<a0, phase>>
     ELSE /\ a' = Trinkle(a, head, p, pshift, FALSE) /\ phase' = "dismantle" /\ UNCHANGED <<a0, head, p, pshift>>
Dismantle ==
  /\ phase = "dismantle"
  /\ IF pshift # 1 \/ p # 1 THEN
       /\ IF pshift <= 1
          THEN LET trail == Pntz(p) IN /\ p' = Shr(p, trail) /\ pshift' = pshift + trail /\ a' = a
          ELSE LET p1 == Shr(Xor7(Shl(p, 2)), 1)                  \* shl(p, 2); pshift -= 2; p[0] ^= 7; shr(p, 1)
                   ps == pshift - 2
                   a1 == Trinkle(a, head - LP(ps) - 1, p1, ps + 1, TRUE)
                   p2 == LET q == Shl(p1, 1) IN q + (IF Mod(q, 2) = 0 THEN 1 ELSE 0)     \* shl(p, 1); p[0] |= 1
               IN /\ a' = Trinkle(a1, head - 1, p2, ps, TRUE) /\ p' = p2 /\ pshift' = ps
       /\ head' = head - 1 /\ UNCHANGED <<a0, phase>>
     ELSE phase' = "done" /\ UNCHANGED <<a, a0, head, p, pshift>>
Next == Build \/ Dismantle
vars == <<a, a0, head, p, pshift, phase>>
Spec == Init /\ [][Next]_vars
FairSpec == Spec /\ WF_vars(Next)
Terminates == <>(phase = "done")

Count(s, k) == Cardinality({i \in 1..Len(s) : s[i] = k})
Sorted == phase = "done" => /\ \A i \in 1..(Len(a) - 1) : a[i] <= a[i + 1]
                            /\ \A k \in Keys : Count(a, k) = Count(a0, k)
Max0(x) == IF x = 0 THEN 0 ELSE x - 1
InHeapArea == head >= 0 /\ head <= Max0(N) /\ Len(a) = N /\ pshift >= 0
Decreasing == [][(phase = "build" /\ phase' = "build" => head' = head + 1) /\ (phase = "dismantle" /\ phase' = "dismantle" => head' = head - 1)]_vars
=============================================================================
