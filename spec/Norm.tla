-------------------------------- MODULE Norm --------------------------------
(* C17 model: strings over a small set of interesting code points (starters, marks of
   different combining classes, precomposed letters incl. a singleton and a composition
   exclusion, Hangul L V T LV) - TLC checks the algebraic laws of normalization on the
   UAX #15 definitions themselves: idempotence, NFD(NFC(s)) = NFD(s), NFC(NFD(s)) = NFC(s),
   length bounds.  These are the laws the recorded executions are then held to. *)
EXTENDS NormDefs
CONSTANT MaxLen
VARIABLE s
Alphabet == {65, 97, 778, 803, 769, 197, 8491, 7842, 2392, 4352, 4449, 4520, 4519, 44032, 224}   \* 4519 = U+11A7 (TBase: not a trailing consonant)
RECURSIVE Strs(_)
Strs(k) == IF k = 0 THEN {<<>>} ELSE LET S == Strs(k - 1) IN S \cup {Append(x, c) : x \in {t \in S : Len(t) = k - 1}, c \in Alphabet}
Init == s \in Strs(MaxLen)
Next == UNCHANGED s
Spec == Init /\ [][Next]_s
Idempotent == NFD(NFD(s)) = NFD(s) /\ NFC(NFC(s)) = NFC(s)
Agree == NFD(NFC(s)) = NFD(s) /\ NFC(NFD(s)) = NFC(s)
Lengths == Len(NFC(s)) <= Len(NFD(s)) /\ Len(NFD(s)) <= 4 * Len(s)
=============================================================================
