------------------------------ MODULE TraceSort ------------------------------
EXTENDS SortContract, Json, IOUtils, TLC
VARIABLES l, bad
T == ndJsonDeserialize(IOEnv.TRACE)
Why(e) ==
  IF e.fault # "none" THEN "fault_" \o e.fault
  ELSE IF ~e.frame_ok THEN "write_outside_array"
  ELSE IF e.cmp_bad_ptr # 0 THEN "comparator_got_non_element"
  ELSE IF e.cmp_bad_ctx # 0 THEN "comparator_got_wrong_context"
  ELSE IF e.hn # 0 \/ e.rc # 0 THEN "spurious_failure"
  ELSE IF e.fn = "qsort_s" THEN
       (IF ~QsortOK(e.pre, e.post, e.tags, e.hastags) THEN "not_a_sorted_permutation"
        ELSE IF ~e.fill_ok THEN "element_bytes_torn" ELSE "")
  ELSE (IF ~BsearchOK(e.pre, e.key, e.ret) THEN "wrong_search_result" ELSE IF e.post # e.pre THEN "array_modified" ELSE "")
TInit == l = 1 /\ bad = <<>>
TNext == /\ l <= Len(T) /\ l' = l + 1
         /\ LET w == Why(T[l]) IN bad' = IF w = "" THEN bad ELSE Append(bad, [i |-> T[l].id, why |-> w, dev |-> ""])
TSpec == TInit /\ [][TNext]_<<l, bad>>
Report == (l = Len(T) + 1) => PrintT(<<"RESULT", ToJson([n |-> Len(T), bad |-> bad])>>)
=============================================================================
