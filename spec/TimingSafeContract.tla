------------------------- MODULE TimingSafeContract -------------------------
(* C19, result contract: timingsafe_bcmp is zero exactly when the two regions are equal;
   timingsafe_memcmp has the sign of the first differing pair compared as unsigned chars. *)
EXTENDS Naturals, Integers, Sequences
FirstDiff(a, b, from) ==     \* index of the first differing pair at or after `from`, 0 if none
  LET D == {i \in from..Len(a) : a[i] # b[i]} IN IF D = {} THEN 0 ELSE CHOOSE i \in D : \A j \in D : i <= j
Equal(a, b) == FirstDiff(a, b, 1) = 0
MemcmpSign(a, b) == LET k == FirstDiff(a, b, 1) IN IF k = 0 THEN 0 ELSE IF a[k] < b[k] THEN -1 ELSE 1
Sign(x) == IF x < 0 THEN -1 ELSE IF x > 0 THEN 1 ELSE 0
ResultOK(fn, a, b, ret) == IF fn = "bcmp" THEN (ret = 0) <=> Equal(a, b) ELSE Sign(ret) = MemcmpSign(a, b)

=============================================================================
