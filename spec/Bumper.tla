------------------------------- MODULE Bumper -------------------------------
(* Algorithm layer for the "overlap bumper" copy loops (strcpy_s, strncpy_s and, by the same
   pattern, their wide and stp variants).  The two loops of the implementation are written
   out step by step - which pointer is compared with the bumper, in which order the count and
   the bumper are tested, where the terminator and the slack are stored - over the same
   abstract arena the contracts use.  TLC runs the algorithm on every placement of source and
   destination (src before, inside, after dest; terminated or not; every dmax and slen) and
   checks at termination that

     Refines       the result (code, handler call, arena) is one the contract layer
                   (StrCopy!CopyOutcomes / NCopyOutcomes, the three-region overlap rule) admits;
     AccessOK      only elements of dest[0..dmax) were written and only source elements the
                   contract declares readable were read (C01 / C02 at the level of the algorithm).

   The constant Order selects the order of the two tests in the dest < src loop of strncpy_s:
   "code" is what the repaired implementation does; "swapped" (count first) is the order the
   pinned tree had in one branch and a seeded change re-introduces - TLC must find the
   refinement failure for it (self-test of the layer).  The real code is bound to this layer
   through the contract: every call TLC enumerates here is also replayed into the library by
   GenArena / TraceArena and judged against the same Outcomes. *)
EXTENDS StrCopy
CONSTANTS N, K, Alg, Order
VARIABLE b

G(i) == 200 + i
Blank == [i \in 1..N |-> G(i)]
Src(len) == [j \in 1..len |-> 96 + j]
Place(a, p, str, term) == [i \in 1..Len(a) |->
    IF i >= p /\ i < p + Len(str) THEN str[i - p + 1]
    ELSE IF term /\ i = p + Len(str) THEN 0 ELSE a[i]]

HasN == Alg = "strncpy_s"
Init == \E d \in 1..N, s \in 1..N, dmax \in 1..K, sl \in 0..K, term \in BOOLEAN, slen \in (IF HasN THEN 1..(K + 1) ELSE {0}) :
          LET a == Place(Blank, s, Src(sl), term)
              lim == IF HasN THEN Min(slen, dmax) ELSE dmax
          IN /\ d # s
             /\ d + dmax - 1 <= N
             /\ s + sl - (IF term THEN 0 ELSE 1) <= N
             /\ s + Min(ScanLen(a, s, lim) + 1, lim) - 1 <= N            \* truthful: what may be read exists
             /\ b = [pre |-> a, mem |-> a, d |-> d, s |-> s, dmax0 |-> dmax, slen0 |-> slen,
                     dest |-> d, src |-> s, dmax |-> dmax, slen |-> slen, pc |-> "loop", rc |-> -1, rd |-> {}, wr |-> {}]

Clear(m, d, n) == [i \in 1..Len(m) |-> IF i >= d /\ i < d + n THEN 0 ELSE m[i]]
Fail(code) == b' = [b EXCEPT !.mem = Clear(b.mem, b.d, b.dmax0), !.wr = @ \cup Rng(b.d, b.dmax0), !.rc = code, !.pc = "done"]
Finish == b' = [b EXCEPT !.mem = Clear(b.mem, b.dest, b.dmax), !.wr = @ \cup Rng(b.dest, b.dmax), !.rc = EOK, !.pc = "done"]   \* terminator + slack
BumperHit == IF b.d < b.s THEN b.dest = b.s ELSE b.src = b.d
CountOut == HasN /\ b.slen = 0
CountFirst == IF b.d < b.s THEN Order = "swapped" ELSE TRUE     \* the src < dest loop tests the count first
Step ==
  /\ b.pc = "loop"
  /\ IF b.dmax = 0 THEN Fail(ESNOSPC)
     ELSE IF CountFirst /\ CountOut THEN Finish
     ELSE IF BumperHit THEN Fail(ESOVRLP)
     ELSE IF CountOut THEN Finish
     ELSE LET c == b.mem[b.src] IN
          IF c = 0 THEN b' = [b EXCEPT !.mem = Clear(b.mem, b.dest, b.dmax), !.rd = @ \cup {b.src}, !.wr = @ \cup Rng(b.dest, b.dmax), !.rc = EOK, !.pc = "done"]
          ELSE b' = [b EXCEPT !.mem[b.dest] = c, !.rd = @ \cup {b.src}, !.wr = @ \cup {b.dest},
                              !.dest = @ + 1, !.src = @ + 1, !.dmax = @ - 1, !.slen = IF HasN THEN @ - 1 ELSE @]
Spec == Init /\ [][Step]_b

Event == [fn |-> Alg, w |-> 1, pre |-> b.pre, post |-> b.mem, d |-> b.d, dmax |-> b.dmax0, s |-> b.s, slen |-> b.slen0, c |-> 0, n |-> 0,
          dbos |-> UNK, sbos |-> UNK, slack |-> 1, flags |-> 0, rc |-> b.rc, h |-> IF b.rc = EOK THEN <<>> ELSE <<b.rc>>,
          hn |-> IF b.rc = EOK THEN 0 ELSE 1, ret |-> AnyV, o1 |-> AnyV, fault |-> "none", foff |-> AnyV, frame_ok |-> TRUE]
Refines == b.pc = "done" => \E o \in StrCopyOutcomes(Event) : Matches(Event, o)
Readable == LET lim == IF HasN THEN Min(b.slen0, b.dmax0) ELSE b.dmax0
                len == ScanLen(b.pre, b.s, lim)
            IN Rng(b.s, Min(len + 1, IF HasN /\ len >= b.slen0 THEN len ELSE lim))
AccessOK == b.wr \subseteq Rng(b.d, b.dmax0) /\ b.rd \subseteq Readable
=============================================================================
