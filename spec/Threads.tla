------------------------------ MODULE Threads ------------------------------
(* C12: library calls as multi-step actions whose working storage is either automatic
   (one per call) or static (one per process, shared by all threads).  TLC explores all
   interleavings of the threads' steps; NonInterference says every finished call returned
   what it returns when run alone.  It holds iff no function keeps static scratch: that
   premise (Scratch[f] = "auto" for every f) is what the conformance check establishes for
   the code, by observing that a call leaves the library's static storage bit-identical
   (TraceThreads).  With any observed static footprint fed back as Scratch[f] = "static",
   TLC produces the corrupting interleaving. *)
EXTENDS Naturals, Sequences, FiniteSets, TLC
CONSTANTS Thr,            \* thread ids
          StaticFns,      \* functions observed (or assumed) to keep static scratch
          Fns             \* functions the threads may call
Scratch(f) == IF f \in StaticFns THEN "static" ELSE "auto"
Inputs == {1, 2}          \* thread-private input values (distinct per call)
VARIABLES pc,      \* [Thr -> {"idle","wrote","done"}]
          cur,     \* [Thr -> [fn, in]] current call
          priv,    \* [Thr -> value]  automatic scratch of the running call
          shared,  \* [Fns -> value]  static scratch, one per function
          result   \* [Thr -> value]  what the finished call returned
vars == <<pc, cur, priv, shared, result>>
Init == /\ pc = [t \in Thr |-> "idle"] /\ cur = [t \in Thr |-> [fn |-> "none", in |-> 0]]
        /\ priv = [t \in Thr |-> 0] /\ shared = [f \in Fns |-> 0] /\ result = [t \in Thr |-> 0]
(* step 1: the call stages its (input-derived) intermediate value in its scratch storage *)
Begin(t, f, x) == /\ pc[t] = "idle"
                  /\ cur' = [cur EXCEPT ![t] = [fn |-> f, in |-> x]]
                  /\ IF Scratch(f) = "auto" THEN priv' = [priv EXCEPT ![t] = x] /\ UNCHANGED shared
                                            ELSE shared' = [shared EXCEPT ![f] = x] /\ UNCHANGED priv
                  /\ pc' = [pc EXCEPT ![t] = "wrote"] /\ UNCHANGED result
(* step 2: it reads the scratch back to produce the caller-visible result *)
Finish(t) == /\ pc[t] = "wrote"
             /\ result' = [result EXCEPT ![t] = IF Scratch(cur[t].fn) = "auto" THEN priv[t] ELSE shared[cur[t].fn]]
             /\ pc' = [pc EXCEPT ![t] = "done"]
             /\ UNCHANGED <<cur, priv, shared>>
Next == \E t \in Thr : (\E f \in Fns, x \in Inputs : Begin(t, f, x)) \/ Finish(t)
Spec == Init /\ [][Next]_vars
(* every finished call returned what it returns when run alone (here: its private input) *)
NonInterference == \A t \in Thr : pc[t] = "done" => result[t] = cur[t].in
(* the schedule-independent formulation the code is bound to *)
NoStaticFootprint == \A f \in Fns : shared[f] = 0
=============================================================================
