----------------------------- MODULE TraceAlloc -----------------------------
(* Validates recorded allocator event sequences (one session per library call with an
   injected failure position) against Alloc.tla: each event must be a step the machine
   allows.  Sessions are separated by Reset events; a rejected session is not judged further. *)
EXTENDS Alloc, Json, IOUtils
VARIABLES l, ok, bad
T == ndJsonDeserialize(IOEnv.TRACE)
TInit == Init /\ l = 1 /\ ok = TRUE /\ bad = <<>>
Rej(e, why) == Append(bad, [i |-> e.sid, why |-> why, dev |-> ""])
Step(e) ==
  CASE e.e = "Reset" -> /\ live' = {} /\ nreq' = 0 /\ failed' = FALSE /\ nextid' = 1 /\ st' = "running" /\ ok' = TRUE /\ UNCHANGED bad
    [] ~ok -> UNCHANGED <<vars, ok, bad>>
    [] e.e = "crash" -> /\ ok' = FALSE /\ bad' = Rej(e, "crash_after_failed_request") /\ UNCHANGED vars
    [] e.e = "malloc" -> IF ENABLED Malloc(e.ok) THEN Malloc(e.ok) /\ UNCHANGED <<ok, bad>> ELSE ok' = FALSE /\ bad' = Rej(e, "malloc_not_allowed") /\ UNCHANGED vars
    [] e.e = "realloc" -> IF e.old = 0 \/ e.old \in live THEN Realloc(e.old, e.ok) /\ UNCHANGED <<ok, bad>> ELSE ok' = FALSE /\ bad' = Rej(e, "realloc_of_unknown_block") /\ UNCHANGED vars
    [] e.e = "free" -> IF e.id \in live THEN Free(e.id) /\ UNCHANGED <<ok, bad>> ELSE ok' = FALSE /\ bad' = Rej(e, "free_of_unknown_block") /\ UNCHANGED vars
    [] e.e = "ret" -> IF live # {} THEN ok' = FALSE /\ bad' = Rej(e, "leak") /\ UNCHANGED vars
                      ELSE IF failed /\ ~(e.failure /\ e.cleared) THEN ok' = FALSE /\ bad' = Rej(e, "failed_request_not_reported") /\ UNCHANGED vars
                      ELSE Return(e.failure, e.cleared) /\ UNCHANGED <<ok, bad>>
TNext == l <= Len(T) /\ l' = l + 1 /\ Step(T[l])
TSpec == TInit /\ [][TNext]_<<vars, l, ok, bad>>
Report == (l = Len(T) + 1) => PrintT(<<"RESULT", ToJson([n |-> Len(T), bad |-> bad])>>)
=============================================================================
