------------------------------ MODULE BSearch ------------------------------
(* C16, algorithm layer: the search loop of bsearch_s (src/misc/bsearch_s.c) as a state machine on indices:
     while (nmemb > 0) { ptry = base + nmemb / 2; sign = compar(key, ptry);
                         if (!sign) return ptry; else if (nmemb == 1) break;
                         else if (sign < 0) nmemb /= 2; else { base = ptry; nmemb -= nmemb / 2; } }
   TLC runs it for every ordered array of at most MaxN keys and every searched key (present or not) and checks
     Result   - an element is returned iff the key occurs, and the element returned equals the key,
     InArray  - every element compared lies inside the array,
     Shrinks  - nmemb decreases with every pass (the loop ends).
   Variant "upperhalf" keeps too little of the upper half (nmemb /= 2 where the code has nmemb -= nmemb / 2): TLC
   has to reject it (self-test of Result). *)
EXTENDS Integers, Sequences, TLC
CONSTANTS MaxN, Keys, Variant
VARIABLES arr, key, base, nmemb, ret, pc

RECURSIVE Ordered(_)
Ordered(k) == IF k = 0 THEN {<<>>} ELSE LET S == Ordered(k - 1) IN S \cup {Append(x, c) : x \in {t \in S : Len(t) = k - 1}, c \in Keys}
IsOrdered(s) == \A i \in 1..(Len(s) - 1) : s[i] <= s[i + 1]
Init == /\ arr \in {s \in Ordered(MaxN) : IsOrdered(s)} /\ key \in Keys \cup {99} /\ base = 0 /\ nmemb = Len(arr) /\ ret = -1 /\ pc = "loop"
Step ==
  /\ pc = "loop"
  /\ IF nmemb > 0 THEN
       LET ptry == base + nmemb \div 2
           e == arr[ptry + 1]
       IN IF key = e THEN ret' = ptry /\ pc' = "done" /\ UNCHANGED <<arr, key, base, nmemb>>
          ELSE IF nmemb = 1 THEN pc' = "done" /\ UNCHANGED <<arr, key, base, nmemb, ret>>
          ELSE IF key < e THEN nmemb' = nmemb \div 2 /\ UNCHANGED <<arr, key, base, ret, pc>>
          ELSE /\ base' = ptry /\ nmemb' = (IF Variant = "upperhalf" THEN nmemb \div 2 ELSE nmemb - nmemb \div 2) /\ UNCHANGED <<arr, key, ret, pc>>
     ELSE pc' = "done" /\ UNCHANGED <<arr, key, base, nmemb, ret>>
vars == <<arr, key, base, nmemb, ret, pc>>
Spec == Init /\ [][Step]_vars
FairSpec == Spec /\ WF_vars(Step)
Present == \E i \in 1..Len(arr) : arr[i] = key
Result == pc = "done" => IF Present THEN ret >= 0 /\ ret < Len(arr) /\ arr[ret + 1] = key ELSE ret = -1
InArray == pc = "loop" /\ nmemb > 0 => (base + nmemb \div 2 >= 0 /\ base + nmemb \div 2 < Len(arr))
Shrinks == [][pc' = "loop" => nmemb' < nmemb]_vars
Terminates == <>(pc = "done")
=============================================================================
