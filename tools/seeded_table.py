#!/usr/bin/env python3
"""Regenerates the table of seeded changes in DESIGN.md (between the SEEDED-TABLE markers) from seeded/*/meta.json."""
import glob
import json
import os
V = os.path.dirname(os.path.dirname(os.path.abspath(__file__)))
rows = ["| seeded change | property | what it does | detection by the quick check |", "|---|---|---|---|"]
for f in sorted(glob.glob(os.path.join(V, "seeded", "*", "meta.json"))):
    m = json.load(open(f))
    det = "; ".join("%s %s" % (k, v) for k, v in m["detected_by"].items())
    if m.get("strengthened"):
        det = "first MISSED - %s; after that: %s" % (m["strengthened"], det)
    rows.append("| `%s` | %s | %s | %s |" % (m["id"], m["property"], m["what"].replace("|", "/"), det.replace("|", "/")))
p = os.path.join(V, "DESIGN.md")
t = open(p).read()
a, b = t.index("<!-- SEEDED-TABLE-BEGIN -->"), t.index("<!-- SEEDED-TABLE-END -->")
t = t[:a] + "<!-- SEEDED-TABLE-BEGIN -->\n" + "\n".join(rows) + "\n" + t[b:]
open(p, "w").write(t)
print(len(rows) - 2, "rows")
