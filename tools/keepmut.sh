#!/bin/sh
# usage: keepmut.sh <wt-name> <prop> <seeded-id>
# verifies a sub-agent's mutation in its scratch worktree and stores it under /verif/seeded/<id>/
set -e
wt=/tmp/wt/$1; prop=$2; id=$3
out=/verif/seeded/$id
mkdir -p $out
cd $wt
git diff -- src include > $out/patch.diff
cp demo_$prop.c $out/
make -j8 >/dev/null 2>&1
make -k check > /tmp/vw/keep_$id.log 2>&1 || true
tests=$(grep -E "^# (PASS|FAIL):" /tmp/vw/keep_$id.log | tr '\n' ' ')
L=""; case $prop in C13|C12|C18) L="-lpthread";; esac
gcc -I$wt/include -I$wt demo_$prop.c $wt/src/.libs/libsafec.a -o /tmp/vw/demo_mut_$id $L -lm 2>/dev/null
set +e
/tmp/vw/demo_mut_$id > /tmp/vw/demo_mut_$id.out 2>&1; rc_mut=$?
gcc -I/repo/include -I/repo demo_$prop.c /repo/src/.libs/libsafec.a -o /tmp/vw/demo_ref_$id $L -lm 2>/dev/null
/tmp/vw/demo_ref_$id > /tmp/vw/demo_ref_$id.out 2>&1; rc_ref=$?
echo "$id: tests: $tests demo_with_change_exit=$rc_mut demo_without_change_exit=$rc_ref"
