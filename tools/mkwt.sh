#!/bin/sh
# usage: mkwt.sh <name>   -- creates a configured, built scratch worktree of /repo under /tmp/wt/<name>
set -e
n=$1
mkdir -p /tmp/wt
git -C /repo worktree add -q /tmp/wt/$n HEAD
rsync -a --exclude='.git' --exclude='*.o' --exclude='*.lo' --exclude='.libs' --exclude='*.la' --exclude='.deps' --exclude='*.log' --exclude='*.trs' --exclude='t_*' --exclude='p_*' --ignore-existing /repo/ /tmp/wt/$n/
cd /tmp/wt/$n
./configure >/dev/null 2>&1
make -j8 >/dev/null 2>&1
echo "ready /tmp/wt/$n"
