#!/usr/bin/env python3
"""swap the `if (src == overlap_bumper) {..}` block with the following `if (slen == 0) {..}` block
in the src<dest branch of the n-variant copy loops (helper used once to prepare a fix: commit)."""
import sys, re

def block_end(s, i):
    # i at 'if'; find matching closing brace of the if block
    j = s.index('{', i)
    depth = 0
    k = j
    while True:
        c = s[k]
        if c == '{': depth += 1
        elif c == '}':
            depth -= 1
            if depth == 0:
                return k + 1
        k += 1

for p in sys.argv[1:]:
    s = open(p).read()
    start = s.index('overlap_bumper = dest;')
    i = s.index('if (unlikely(src == overlap_bumper))', start)
    e1 = block_end(s, i)
    m = re.compile(r'\s*(/\*.*?\*/\s*)?if \(unlikely\(slen == 0\)\)', re.S).match(s, e1)
    assert m, p
    i2 = s.index('if (unlikely(slen == 0))', e1)
    # include a leading comment belonging to block 2
    c2 = s.rfind('/*', e1, i2)
    b2start = c2 if c2 >= 0 else i2
    e2 = block_end(s, i2)
    blk1 = s[i:e1]
    gap = s[e1:b2start]
    blk2 = s[b2start:e2]
    s = s[:i] + blk2 + gap + blk1 + s[e2:]
    open(p, 'w').write(s)
    print("swapped in", p)
