# regenerates harness/hpf_calls.h (see the python snippet in git history); kept for reference
