"""known_findings.txt: genuine defects of the pinned tree that are recorded rather than
repaired.  Read-only at run time.

  known: property=<id> dev=<DeviationName> <what fails>
  fixed: property=<id> <commit> <what failed>          (suppresses nothing)
"""
import os
import re

VERIF = os.path.dirname(os.path.dirname(os.path.abspath(__file__)))
PATH = os.path.join(VERIF, "known_findings.txt")


def load():
    known = {}
    if not os.path.exists(PATH):
        return known
    for ln in open(PATH):
        ln = ln.strip()
        m = re.match(r"known:\s+property=(\w+)\s+dev=(\w+)\s+(.*)$", ln)
        if m:
            known[(m.group(1), m.group(2))] = m.group(3)
    return known
