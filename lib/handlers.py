"""C13 engine: Handlers.tla model-checked; its histories replayed with real pthreads in
lockstep (hhand); recorded sessions validated by TraceHandlers.tla."""
import json
import os
import random
import subprocess

from . import build, tlc
from .engines_common import Result


def decode(code):
    """code int -> (op, t, k, h)"""
    return (code // 1000, (code // 100) % 10, (code // 10) % 10, code % 10)


def session_line(sid, ops):
    return "%d %d %s" % (sid, len(ops), " ".join("%d %d %d %d" % o for o in ops))


def with_probes(hist):
    """interleave violation probes: after every step every live thread x kind is probed"""
    ops = []
    alive = 1
    for k in (0, 1):
        ops.append((3, 1, k, 0))
    for (op, t, k, h) in hist:
        ops.append((op, t, k, h))
        if op == 2 and alive < 8:
            alive += 1
        for tt in range(1, alive + 1):
            for kk in (0, 1):
                ops.append((3, tt, kk, 0))
    return ops


def random_history(rnd, length, maxthreads):
    hist = []
    alive = 1
    for _ in range(length):
        r = rnd.random()
        t = rnd.randint(1, alive)
        if r < 0.12 and alive < maxthreads:
            hist.append((2, t, 0, 0))
            alive += 1
        elif r < 0.56:
            hist.append((0, t, rnd.randint(0, 1), rnd.randint(0, 2)))
        else:
            hist.append((1, t, rnd.randint(0, 1), rnd.randint(0, 2)))
    return hist


def sparse_probes(rnd, hist):
    """long histories: probe two random (thread, kind) pairs after each step"""
    ops = []
    alive = 1
    for (op, t, k, h) in hist:
        ops.append((op, t, k, h))
        if op == 2:
            alive += 1
        for _ in range(2):
            ops.append((3, rnd.randint(1, alive), rnd.randint(0, 1), 0))
    return ops


def run(prop, tier, seed, workdir):
    res = Result("handlers")
    rnd = random.Random(seed)
    maxops = 4
    cfg = os.path.join(workdir, "handlers.cfg")
    tlc.write_cfg(cfg, constants=dict(MaxThreads=3, MaxOps=maxops), invariants=["C13_Dispatch", "C13_Prev", "C13_NoForeign"])
    r = tlc.model_check("Handlers", cfg, workdir, workers=16, dump=True, heap="12g")
    if r["violated"] or not r["ok"]:
        raise tlc.TLCError("Handlers model violates C13: %s\n%s" % (r["violated"], r["out"][-2000:]))
    if tier != "quick":
        # histories of length 5 are model-checked only (their dump is > 10 GB); replayed are all histories of length <= 4 and the seeded long ones
        cfg5 = os.path.join(workdir, "handlers5.cfg")
        tlc.write_cfg(cfg5, constants=dict(MaxThreads=3, MaxOps=5), invariants=["C13_Dispatch", "C13_Prev", "C13_NoForeign"])
        r5 = tlc.model_check("Handlers", cfg5, workdir, workers=16, heap="12g", timeout=7200)
        if r5["violated"] or not r5["ok"]:
            raise tlc.TLCError("Handlers model (MaxOps=5) violates C13: %s\n%s" % (r5["violated"], r5["out"][-2000:]))
        r["distinct"] += r5["distinct"]
        r["states"] += r5["states"]
    codes = set()
    with open(r["dump_path"]) as f:
        for ln in f:
            if ln.startswith("/\\ code = <<"):
                codes.add(ln[12:-3].strip())
    os.unlink(r["dump_path"])
    hists = {}
    for c in codes:
        h = tuple(decode(int(x)) for x in c.split(",")) if c else ()
        hists.setdefault(len(h), []).append(h)
    for k in hists:
        hists[k].sort()
    exhaustive_len = maxops - 1
    chosen = []
    for k in sorted(hists):
        if k == 0:
            continue
        if k <= exhaustive_len:
            # a history of length k is a prefix of longer ones, but replaying each keeps sessions short
            if k == exhaustive_len:
                chosen += hists[k]
        else:
            n = 3000 if tier == "quick" else 20000
            chosen += rnd.sample(hists[k], min(n, len(hists[k])))
    sessions = [with_probes(h) for h in chosen]
    nlong = 60 if tier == "quick" else 2000
    longs = []
    for _ in range(nlong):
        h = random_history(rnd, rnd.randint(20, 200), 6)
        longs.append(h)
        sessions.append(sparse_probes(rnd, h))
    b = build.ensure(["slack"], [("hhand", "slack")])
    exe = b[("hhand", "slack")]
    lines = [session_line(i + 1, ops) for i, ops in enumerate(sessions)]
    # run in parallel chunks
    from concurrent.futures import ThreadPoolExecutor
    k = 16
    size = (len(lines) + k - 1) // k
    chunks = [lines[i * size:(i + 1) * size] for i in range(k) if lines[i * size:(i + 1) * size]]

    def runchunk(ch):
        p = subprocess.run([exe], input="\n".join(ch) + "\n", stdout=subprocess.PIPE, stderr=subprocess.PIPE, text=True, timeout=1200)
        if p.returncode != 0:
            raise RuntimeError("hhand failed: " + p.stderr[-500:])
        return p.stdout.splitlines()
    with ThreadPoolExecutor(max_workers=k) as ex:
        outs = list(ex.map(runchunk, chunks))
    # keep sessions intact per chunk: validate chunk-wise (each chunk starts with a Reset)
    events = [e for o in outs for e in o]
    cfgp = os.path.join(tlc.SPEC, "TraceHandlers.cfg")
    # chunking for validation must not split sessions: split on Reset boundaries
    groups, cur = [], []
    for e in events:
        if e.startswith('{"e":"Reset"') and len(cur) > 20000:
            groups.append(cur)
            cur = []
        cur.append(e)
    if cur:
        groups.append(cur)
    bad = []
    total = 0
    states = 0
    from concurrent.futures import ThreadPoolExecutor as TPE
    def val(g):
        return tlc.validate("TraceHandlers", cfgp, g, workdir, jvms=1)
    with TPE(max_workers=16) as ex:
        for n, bd, st in ex.map(val, groups):
            total += n
            bad += bd
            states += st
    ev_by_id = None
    for bd in bad:
        if ev_by_id is None:
            ev_by_id = {}
            for e in events:
                d = json.loads(e)
                ev_by_id[d["id"]] = d
        d = ev_by_id.get(bd["i"], {})
        sid = d.get("sid", bd["i"] // 10000)
        ops = sessions[sid - 1]
        res.violations.append(dict(
            desc="handler history session %d: event %s rejected (%s)" % (sid, json.dumps(d), bd["why"]),
            cluster="%s|%s" % (bd["why"], d.get("e")), slug="hist-%d" % sid, dev="",
            replay=dict(kind="handlers", ops=ops, rejected_event=d, why=bd["why"])))
    nviol_events = sum(1 for e in events if '"viol"' in e)
    res.coverage = dict(
        states=r["distinct"], transitions=r["states"], traces_validated_against_impl=len(sessions),
        evaluations=total, distinct_nontrivial=len(set(chosen)) + len(longs),
        rule="TLC explores every registration/spawn history of <= %d operations (3 threads, 2 kinds, handlers H1/H2/NULL, inheritance on "
             "spawn open) with a violation probe possible after every prefix and checks C13_Dispatch/C13_Prev/C13_NoForeign; every distinct "
             "history of length %d and a seeded sample of length-%d histories from the TLC state dump, plus random histories of length "
             "20..200 over <= 6 threads, are replayed with real pthreads in lockstep, probing every live thread x kind after every step; "
             "all events are validated by TraceHandlers.tla. non-trivial = distinct histories with at least one registration" % (
                 maxops, exhaustive_len, maxops),
        samples=[dict(history=[list(o) for o in chosen[i]]) for i in (0, len(chosen) // 2, len(chosen) - 1)] if chosen else [],
        probes=nviol_events, exhaustive=False, model_histories=len(codes),
        checker_cmd="tlc Handlers.tla (INVARIANTS C13_Dispatch C13_Prev C13_NoForeign); tlc TraceHandlers.tla")
    res.assumptions = ["threads run one library call at a time under a baton: interleavings at call granularity only (the registration functions are single stores)",
                       "model bound: 3 threads, <= %d operations exhaustively; longer histories only by seeded sampling" % maxops,
                       "thread exit is not modelled"]
    return res


def replay(rp, workdir):
    res = Result("handlers-replay")
    b = build.ensure(["slack"], [("hhand", "slack")])
    p = subprocess.run([b[("hhand", "slack")]], input=session_line(1, [tuple(o) for o in rp["ops"]]) + "\n", stdout=subprocess.PIPE, text=True, timeout=120)
    events = p.stdout.splitlines()
    n, bad, st = tlc.validate("TraceHandlers", os.path.join(tlc.SPEC, "TraceHandlers.cfg"), events, workdir, jvms=1)
    for bd in bad:
        res.violations.append(dict(desc="replayed handler history rejected at event id %s (%s)" % (bd["i"], bd["why"]), cluster=bd["why"], slug="hist-replay", dev="",
                                   replay=rp))
    print("replayed 1 session, %d events, %d rejected" % (n, len(bad)))
    return res
