"""C20 engine (fault enumeration): every allocating call site x every failing position,
event traces validated by TraceAlloc.tla against Alloc.tla."""
import json
import os
import subprocess
from concurrent.futures import ThreadPoolExecutor

from . import build, tlc
from .engines_common import Result

SCENARIOS = {
    1: "sprintf_s(\"%ls\") of a wide string (conversion buffer)",
    2: "sprintf_s(\"%ls\") with a character that cannot be converted in the C locale (error path)",
    3: "sprintf_s(\"%Lf x\") long double with trailing format text (format copy)",
    4: "sprintf_s(\"%Le y\")", 5: "sprintf_s(\"%La z\")", 6: "sprintf_s(\"%a w\")",
    7: "swprintf_s no-space probe with dmax >= 512", 8: "vswprintf_s no-space probe", 9: "snwprintf_s no-space probe", 10: "vsnwprintf_s no-space probe",
    11: "wcsnorm_s NFD of a 130-character string (heap scratch)",
    12: "wcsnorm_s NFD, 12 combining marks (reorder buffer malloc)", 13: "wcsnorm_s NFD, 17 marks (realloc)", 14: "wcsnorm_s NFD, 23 marks (two reallocs)",
    15: "wcsnorm_s NFC, 12 combining marks (compose)", 16: "wcsnorm_s NFC, 23 marks",
    17: "wcsicmp_s (two fold buffers)", 18: "wcsnatcasecmp_s (two fold buffers)",
    19: "sprintf_s(\"%-12ls\") into 8 bytes: the trailing blanks do not fit (scratch live)", 20: "sprintf_s(\"%12ls\") into 8 bytes: the leading blanks do not fit",
    21: "sprintf_s(\"%ls\") into 4 bytes: the text does not fit", 22: "sprintf_s with three %ls directives (width, left-justified, precision)",
    23: "snprintf_s(\"%-9ls|\") truncating",
    24: "sprintf_s(\"%Lf x\") into 4 bytes", 25: "sprintf_s(\"%Le y\") into 4 bytes", 26: "sprintf_s(\"%La z\") into 4 bytes", 27: "sprintf_s(\"%a w\") into 4 bytes",
    28: "wcsnorm_s NFD of 130 precomposed characters into 140 elements (heap scratch, no space)",
    29: "wcsnorm_s NFD, 23 marks into 20 elements (no space)", 30: "wcsnorm_s NFC, 23 marks into 20 elements (no space)",
    31: "wcsicmp_s, the second operand's fold (8 x U+FB03) outgrows its scratch string", 32: "wcsicmp_s, the first operand's fold outgrows its scratch string",
    35: "wcsnorm_s NFD, 110 plain characters and 13 marks (heap scratch and reorder buffer live together)", 36: "wcsnorm_s NFD, 110 plain characters and 23 marks",
    37: "wcsnorm_s NFC, 110 plain characters and 13 marks (heap scratch, reorder and compose buffers)", 38: "wcsnorm_s NFC, 110 plain characters and 23 marks",
    39: "wcsnorm_s FCC, 110 plain characters and 13 marks", 40: "wcsnorm_s FCC, 110 plain characters and 23 marks",
    33: "wcsnaticmp_s, the second operand's fold outgrows its scratch string", 34: "wcsnaticmp_s, the first operand's fold outgrows its scratch string",
}


def run_one(exe, sc, k, persist=False):
    try:
        p = subprocess.run([exe, str(sc), str(k)] + (["p"] if persist else []), stdout=subprocess.PIPE, stderr=subprocess.PIPE, text=True, timeout=30)
    except subprocess.TimeoutExpired:
        return None, "hang"
    if p.returncode != 0:
        return None, "rc=%d" % p.returncode
    for ln in p.stderr.splitlines():
        if ln.startswith("SITES"):
            SITES_SEEN.update(ln.split()[1:])
    return [ln for ln in p.stdout.splitlines() if ln.startswith("{")], ""


SITES_SEEN = set()


def static_sites():
    """functions of the library sources that contain an allocating call (from the working tree)"""
    import re
    out = {}
    fdef = re.compile(r"^(?:EXPORT\s+|static\s+|inline\s+)*[A-Za-z_][\w\s\*]*?\b(\w+)\s*\([^;]*$")
    for s in build.source_list():
        cur = []          # the names declared since the last function body ended (#ifdef variants of one definition)
        for i, ln in enumerate(open(os.path.join(build.REPO, s)).read().splitlines(), 1):
            if ln.startswith("}"):
                cur = []
            m = fdef.match(ln)
            if m and not ln.startswith((" ", "\t", "#", "/", "*")) and m.group(1) not in ("if", "while", "for", "switch", "return", "sizeof"):
                cur.append(m.group(1))
            if re.search(r"\b(malloc|calloc|realloc)\s*\(", ln) and not ln.lstrip().startswith(("*", "//", "/*")):
                out.setdefault("|".join(cur) or "?", []).append("%s:%d" % (os.path.basename(s), i))
    return out


def resolve_sites(exe):
    """function names (nm symbol ranges of the non-PIE harness binary) that the recorded return addresses fall into"""
    syms = []
    for ln in subprocess.run(["nm", "-S", "--defined-only", exe], stdout=subprocess.PIPE, text=True).stdout.splitlines():
        p = ln.split()
        if len(p) == 4 and p[2] in "tT":
            syms.append((int(p[0], 16), int(p[0], 16) + int(p[1], 16), p[3]))
    out = set()
    for a in SITES_SEEN:
        v = int(a, 16)
        for lo, hi, name in syms:
            if lo <= v < hi:
                out.add(name)
                break
    return out


def run(prop, tier, seed, workdir):
    res = Result("alloc", level="fault_enumeration")
    cfg = os.path.join(workdir, "alloc.cfg")
    tlc.write_cfg(cfg, constants=dict(MaxReq=3 if tier == "quick" else 4), invariants=["NoLeakAtReturn", "TypeOK"])
    r = tlc.model_check("Alloc", cfg, workdir, workers=8)
    if r["violated"] or not r["ok"]:
        raise tlc.TLCError("Alloc model: %s\n%s" % (r["violated"], r["out"][-1500:]))
    b = build.ensure(["slack"], [("halloc", "slack")])
    exe = b[("halloc", "slack")]
    sessions = []   # (sid, scenario, k, events or None, note)
    for sc in sorted(SCENARIOS):
        evs, note = run_one(exe, sc, 0)
        if evs is None:
            sessions.append((sc * 100, sc, 0, None, note))
            continue
        m = sum(1 for e in evs if '"e":"malloc"' in e or '"e":"realloc"' in e)
        sessions.append((sc * 100, sc, 0, evs, ""))
        for k in range(1, m + 1):
            e2, note = run_one(exe, sc, k)
            sessions.append((sc * 100 + k, sc, k, e2, note))
        # memory stays exhausted: every request from the k-th on fails (the clean-up paths must not need memory)
        for k in range(1, m + 1):
            e2, note = run_one(exe, sc, k, persist=True)
            sessions.append((sc * 100 + 50 + k, sc, k, e2, note + (" persistent" if note else "")))
    lines = []
    for sid, sc, k, evs, note in sessions:
        lines.append('{"e":"Reset","sid":%d}' % sid)
        if evs is None:
            lines.append('{"e":"crash","sid":%d,"note":"%s"}' % (sid, note))
        else:
            for e in evs:
                lines.append('{"sid":%d,' % sid + e[1:])
    n, bad, st = tlc.validate("TraceAlloc", os.path.join(tlc.SPEC, "TraceAlloc.cfg"), lines, workdir, jvms=1)
    by = {s[0]: s for s in sessions}
    for bd in bad:
        sid = bd["i"]
        s = by[sid]
        res.violations.append(dict(desc="scenario %d (%s), failing request k=%d%s: %s" % (s[1], SCENARIOS[s[1]], s[2], " and all later ones" if s[0] % 100 >= 50 else "", bd["why"]),
                                   cluster="%d|%s" % (s[1], bd["why"]), slug="alloc-%d-%d" % (s[1], s[2]), dev=bd.get("dev", ""),
                                   replay=dict(kind="alloc", scenario=s[1], k=s[2], persist=(s[0] % 100 >= 50), why=bd["why"], events=s[3])))
    nsites = len({s[1] for s in sessions if s[2] > 0})
    res.coverage = dict(
        evaluations=len(sessions), distinct_nontrivial=sum(1 for s in sessions if s[2] > 0),
        rule="for each of the %d call-site scenarios a dry run counts the allocation requests m the library makes, then one run per k in 1..m fails "
             "the k-th request (malloc/calloc/realloc interposed with -Wl,--wrap for the library objects); every run's allocator event sequence is "
             "validated by TraceAlloc.tla against Alloc.tla (no crash, no use after a failed request, every block freed before return, failure "
             "indication + dest cleared after a failed request, and no leak on the failure-free run). non-trivial = runs with an injected failure" % len(SCENARIOS),
        samples=[dict(scenario=s[1], what=SCENARIOS[s[1]], fail_k=s[2], events=s[3]) for s in sessions[1:4]],
        states=r["distinct"], transitions=r["states"], traces_validated_against_impl=len(sessions), scenarios_with_allocations=nsites,
        scenario_list=SCENARIOS, exhaustive=True)
    reached = resolve_sites(exe)
    static = static_sites()
    res.coverage["functions_with_allocating_call_sites"] = {f: v for f, v in sorted(static.items())}
    res.coverage["allocating_functions_not_reached"] = sorted(f for f in static if not (set(f.split("|")) & reached))
    res.assumptions = ["allocation sites are reached through the %d listed scenarios; a new allocating call site needs a new scenario" % len(SCENARIOS),
                       "only allocations made directly by library objects are intercepted (libc-internal allocations are not failed)",
                       "one failing position per run, and runs in which every request from the k-th on fails; arbitrary subsets of failing requests are not enumerated"]
    return res


def replay(rp, workdir):
    res = Result("alloc-replay", level="fault_enumeration")
    b = build.ensure(["slack"], [("halloc", "slack")])
    evs, note = run_one(b[("halloc", "slack")], rp["scenario"], rp["k"], persist=rp.get("persist", False))
    lines = ['{"e":"Reset","sid":1}'] + (['{"e":"crash","sid":1}'] if evs is None else ['{"sid":1,' + e[1:] for e in evs])
    print("\n".join(lines))
    n, bad, st = tlc.validate("TraceAlloc", os.path.join(tlc.SPEC, "TraceAlloc.cfg"), lines, workdir, jvms=1)
    for bd in bad:
        res.violations.append(dict(desc="scenario %d k=%d: %s" % (rp["scenario"], rp["k"], bd["why"]), cluster=bd["why"], slug="alloc-replay", dev="", replay=rp))
    return res
