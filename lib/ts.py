"""C19 engine: TimingSafe.tla (result contract + the algorithm as an observable state machine; TLC checks Correct and
DataIndependent for all contents, and that the early-exit variant violates DataIndependent); every final state of the model
is a result case replayed into the real functions; plus all 256x256 byte pairs at the first difference; data independence of
the compiled code is observed with valgrind (memcheck: both regions undefined; lackey: instruction/address trace of the
function per n, compared across contents) and validated by TraceTimingSafe.tla."""
import hashlib
import json
import os
import random
import re
import subprocess
from concurrent.futures import ProcessPoolExecutor, ThreadPoolExecutor

from . import build, tlc
from .engines_common import Result

BYTES = {0, 1, 127, 128, 255}
FNS = {1: "_timingsafe_bcmp_chk", 2: "_timingsafe_memcmp_chk"}
BUILDS = ("slack", "o0", "o3")      # -O2 (the shipped default), -O0, -O3


def fn_ranges(exe):
    out = subprocess.run(["nm", "-S", "--defined-only", exe], stdout=subprocess.PIPE, text=True, check=True).stdout
    r = {}
    for ln in out.splitlines():
        p = ln.split()
        if len(p) == 4 and p[3] in FNS.values():
            r[p[3]] = (int(p[0], 16), int(p[0], 16) + int(p[1], 16))
    return r


def shape_run(exe, rng, fn, n, k):
    p = subprocess.run(["valgrind", "--tool=lackey", "--trace-mem=yes", exe, "s", str(fn), str(n), str(k)],
                       stdout=subprocess.PIPE, stderr=subprocess.PIPE, text=True, timeout=600)
    info = None
    for ln in p.stdout.splitlines():
        if ln.startswith("{"):
            info = json.loads(ln)
    if info is None:
        raise RuntimeError("hts s produced no output under lackey: %s" % p.stderr[-300:])
    lo, hi = rng[FNS[fn]]
    A, B = info["A"], info["B"]
    h = hashlib.sha1()
    inside = False
    ninstr = nacc = over = 0
    seenA, seenB = set(), set()
    base = None
    for ln in p.stderr.splitlines():
        if len(ln) < 4 or ln[0] == "=":
            continue
        kind = ln[:2]
        try:
            addr_s, size_s = ln[3:].split(",")
            addr, size = int(addr_s, 16), int(size_s)
        except ValueError:
            continue
        if kind == "I ":
            inside = lo <= addr < hi
            if inside:
                ninstr += 1
                h.update(("I%x," % (addr - lo)).encode())
        elif inside:
            nacc += 1
            if A <= addr < A + 4096:
                tag, off, seen = "A", addr - A, seenA
            elif B <= addr < B + 4096:
                tag, off, seen = "B", addr - B, seenB
            else:
                if base is None:
                    base = addr
                tag, off, seen = "S", addr - base, None
            if seen is not None:
                if off + size > n:
                    over += 1
                seen.update(range(off, off + size))
            h.update(("%s%s%d:%d," % (kind.strip(), tag, off, size)).encode())
    cover = all(i in seenA for i in range(n)) and all(i in seenB for i in range(n))
    return dict(hash=h.hexdigest()[:16], ninstr=ninstr, nacc=nacc, over=over, cover=cover)


def taint_run(exe, fn, n, k):
    p = subprocess.run(["valgrind", "--tool=memcheck", "-q", "--error-limit=no", exe, "t", str(fn), str(n), str(k)],
                       stdout=subprocess.PIPE, stderr=subprocess.PIPE, text=True, timeout=600)
    for ln in p.stdout.splitlines():
        if ln.startswith("{"):
            return json.loads(ln)
    raise RuntimeError("hts t produced no output under memcheck: %s" % p.stderr[-300:])


def dojob(j):
    kind, fl, exe, rng, fn, n, kk = j
    if kind == "shape":
        s = shape_run(exe, rng, fn, n, kk)
        return dict(e="shape", build=fl, fn=fn, n=n, k=kk, key="%s|%d|%d" % (fl, fn, n), **s)
    t = taint_run(exe, fn, n, kk)
    t["build"] = fl
    return t


def run(prop, tier, seed, workdir):
    res = Result("timingsafe")
    rnd = random.Random(seed)
    maxn = 3 if tier == "quick" else 4
    cfg = os.path.join(workdir, "ts.cfg")
    tlc.write_cfg(cfg, constants=dict(MaxN=3, Bytes=BYTES, Algs={"bcmp", "memcmp"}), invariants=["Correct", "DataIndependent"])
    r = tlc.model_check("TimingSafe", cfg, workdir, workers=16, dump=True, heap="12g")
    if r["violated"] or not r["ok"]:
        raise tlc.TLCError("TimingSafe.tla: the specified algorithm violates %s\n%s" % (r["violated"], r["out"][-1500:]))
    if maxn > 3:
        # the larger scope is model-checked only (11M states); its final states are not replayed (the dump would be several GB)
        cfg4 = os.path.join(workdir, "ts4.cfg")
        tlc.write_cfg(cfg4, constants=dict(MaxN=maxn, Bytes=BYTES, Algs={"bcmp", "memcmp"}), invariants=["Correct", "DataIndependent"])
        r4 = tlc.model_check("TimingSafe", cfg4, workdir, workers=16, heap="16g", timeout=7200)
        if r4["violated"] or not r4["ok"]:
            raise tlc.TLCError("TimingSafe.tla (MaxN=%d): the specified algorithm violates %s\n%s" % (maxn, r4["violated"], r4["out"][-1500:]))
        r["distinct"] += r4["distinct"]
        r["states"] += r4["states"]
    finals = [s for s in tlc.parse_dump(r["dump_path"], var="m") if s.get("pc") == "ret"]
    os.unlink(r["dump_path"])
    cfg2 = os.path.join(workdir, "ts_leaky.cfg")
    tlc.write_cfg(cfg2, constants=dict(MaxN=2, Bytes=BYTES, Algs={"leaky"}), invariants=["DataIndependent"])
    r2 = tlc.model_check("TimingSafe", cfg2, workdir, workers=4)
    if not r2["violated"]:
        raise tlc.TLCError("self-test: DataIndependent is not violated by the early-exit variant")
    # --- result cases
    cases = []
    for s in finals:
        cases.append((1 if s["alg"] == "bcmp" else 2, s["a"], s["b"]))
    nmodel = len(cases)
    for x in range(256):
        for y in range(256):
            pre = [rnd.randrange(256) for _ in range(rnd.choice([0, 0, 1, 3]))]
            suf_a = [rnd.randrange(256) for _ in range(rnd.choice([0, 1, 2]))]
            suf_b = [rnd.randrange(256) for _ in suf_a]
            for fn in (1, 2):
                cases.append((fn, pre + [x] + suf_a, pre + [y] + suf_b))
    for _ in range(2000 if tier == "quick" else 40000):
        n = rnd.choice([0, 1, 7, 8, 9, 15, 16, 17, 31, 32, 33, 63, 64, 65, 100, 255, 256, 257, 1000])
        a = [rnd.randrange(256) for _ in range(n)]
        b = list(a)
        for _ in range(rnd.choice([0, 1, 1, 2])):
            if n:
                b[rnd.randrange(n)] = rnd.randrange(256)
        for fn in (1, 2):
            cases.append((fn, a, b))
    lines = ["%d %d %d %s %s" % (i + 1, fn, len(a), " ".join(map(str, a)), " ".join(map(str, b))) for i, (fn, a, b) in enumerate(cases)]
    b_ = build.ensure(list(BUILDS), [("hts", f) for f in BUILDS])
    events = []
    k = 16
    size = (len(lines) + k - 1) // k
    chunks = [lines[i * size:(i + 1) * size] for i in range(k) if lines[i * size:(i + 1) * size]]
    for fl in BUILDS:
        exe = b_[("hts", fl)]
        if tier == "quick" and fl != "slack":      # the other builds: every 4th case in the quick tier
            sub = lines[::4]
            size2 = (len(sub) + k - 1) // k
            chunks_fl = [sub[i * size2:(i + 1) * size2] for i in range(k) if sub[i * size2:(i + 1) * size2]]
        else:
            chunks_fl = chunks

        def runchunk(ch, exe=exe):
            p = subprocess.run([exe, "r"], input="\n".join(ch) + "\n", stdout=subprocess.PIPE, stderr=subprocess.PIPE, text=True, timeout=1200)
            got = [ln for ln in p.stdout.splitlines() if ln.startswith("{")]
            if len(got) != len(ch):
                raise RuntimeError("hts r: %d/%d results: %s" % (len(got), len(ch), p.stderr[-300:]))
            return got
        with ThreadPoolExecutor(max_workers=k) as ex:
            for o in ex.map(runchunk, chunks_fl):
                events += o
    n1, bad1, st1 = tlc.validate("TraceTimingSafe", os.path.join(tlc.SPEC, "TraceTimingSafe.cfg"), events, workdir, jvms=16, heap="2g")
    # --- data independence of the compiled code
    ns = [0, 1, 2, 3, 4, 7, 8, 9, 15, 16, 17, 31, 32, 33, 64] if tier == "quick" else list(range(0, 70)) + [100, 127, 128, 129, 255, 256, 257, 1000]
    ks = [1, 2, 3, 5, 6] if tier == "quick" else [0, 1, 2, 3, 4, 5, 6, 7]
    jobs = []
    for fl in BUILDS:
        exe = b_[("hts", fl)]
        rng = fn_ranges(exe)
        for fn in (1, 2):
            for n in ns:
                for kk in ks:
                    jobs.append(("shape", fl, exe, rng, fn, n, kk))
                for kk in (5, 6):
                    jobs.append(("taint", fl, exe, rng, fn, n, kk))

    with ProcessPoolExecutor(max_workers=16) as ex:
        obs = list(ex.map(dojob, jobs, chunksize=4))
    oev = []
    ometa = {}
    for i, o in enumerate(obs):
        o["id"] = 100000000 + i
        ometa[o["id"]] = o
        oev.append(json.dumps(o))
    n2, bad2, st2 = tlc.validate("TraceTimingSafe", os.path.join(tlc.SPEC, "TraceTimingSafe.cfg"), oev, workdir, jvms=1)
    for bd in bad1 + bad2:
        if bd["why"].startswith("ORACLE"):
            raise tlc.TLCError("observation machinery failed: %s %s" % (bd["why"], ometa.get(bd["i"])))
    ncases = len(cases)
    for bd in bad1:
        fn, a, b = cases[bd["i"] - 1]
        res.violations.append(dict(desc="timingsafe_%s(n=%d a=%s b=%s): %s" % ("bcmp" if fn == 1 else "memcmp", len(a), a[:12], b[:12], bd["why"]),
                                   cluster="%d|%s" % (fn, bd["why"]), slug="ts-res-%d" % bd["i"], dev="", replay=dict(kind="ts", mode="res", fn=fn, a=a, b=b, why=bd["why"])))
    for bd in bad2:
        o = ometa[bd["i"]]
        res.violations.append(dict(desc="timingsafe_%s n=%d contents #%d, %s build: %s" % ("bcmp" if o["fn"] == 1 else "memcmp", o["n"], o["k"], o["build"], bd["why"]),
                                   cluster="%d|%s|%s" % (o["fn"], o["build"], bd["why"]), slug="ts-%s-%d-%d-%s" % (o["e"], o["fn"], o["n"], o["build"]), dev="",
                                   replay=dict(kind="ts", mode=o["e"], fn=o["fn"], n=o["n"], build=o["build"], ks=ks, why=bd["why"])))
    res.coverage = dict(
        states=r["distinct"], transitions=r["states"], traces_validated_against_impl=len(events) + len(obs), evaluations=n1 + n2,
        distinct_nontrivial=len({(fn, tuple(a), tuple(b)) for fn, a, b in cases if a != b}),
        rule="TimingSafe.tla: TLC runs the specified accumulate-over-all-bytes algorithms on every pair of contents over {00,01,7F,80,FF} for n <= %d and checks Correct "
             "and DataIndependent (obs = Shape(n)); the early-exit variant is shown to violate DataIndependent.  Results: every final model state for n <= 3 (%d) plus all "
             "256x256 byte pairs at the first difference (random equal prefix / random suffix) and seeded long regions (n to 1000) through both functions in three "
             "builds (-O2, -O0, -O3), operands flush against inaccessible pages.  Data independence of the compiled code: per build, function and n in %s: memcheck with both regions "
             "undefined (no conditional jump or address may depend on them) and the lackey instruction/address trace of the function, which must be identical for %d different "
             "content patterns (equal, first / middle / last byte differing, all different), read every byte below n and none above.  non-trivial = distinct unequal pairs" % (
                 maxn, nmodel, "{%s}" % ",".join(map(str, ns)) if len(ns) < 20 else "0..69 and {100,127,128,129,255,256,257,1000}", len(ks)),
        samples=[dict(fn=c[0], a=c[1][:8], b=c[2][:8]) for c in (cases[0], cases[nmodel], cases[-1])],
        valgrind_runs=len(obs), exhaustive=False, checker_cmd="tlc TimingSafe.tla (INVARIANTS Correct DataIndependent); tlc TraceTimingSafe.tla")
    res.assumptions = ["valgrind's definedness tracking and lackey's trace are trusted; the statement is about these builds (gcc -O0/-O2/-O3) on x86-64",
                       "data independence is observed at the level of instructions and addresses, not of micro-architectural timing (e.g. data-dependent instruction latency)"]
    return res


def replay(rp, workdir):
    res = Result("ts-replay")
    if rp["mode"] == "res":
        b_ = build.ensure(list(BUILDS), [("hts", f) for f in BUILDS])
        evs = []
        for fl in BUILDS:
            p = subprocess.run([b_[("hts", fl)], "r"], input="1 %d %d %s %s\n" % (rp["fn"], len(rp["a"]), " ".join(map(str, rp["a"])), " ".join(map(str, rp["b"]))),
                               stdout=subprocess.PIPE, text=True, timeout=60)
            evs += [ln for ln in p.stdout.splitlines() if ln.startswith("{")]
    else:
        b_ = build.ensure([rp["build"]], [("hts", rp["build"])])
        exe = b_[("hts", rp["build"])]
        rng = fn_ranges(exe)
        evs = []
        for i, kk in enumerate(rp["ks"]):
            if rp["mode"] == "shape":
                o = dict(e="shape", build=rp["build"], fn=rp["fn"], n=rp["n"], k=kk, key="k", id=i + 1, **shape_run(exe, rng, rp["fn"], rp["n"], kk))
            else:
                o = taint_run(exe, rp["fn"], rp["n"], kk)
                o["id"] = i + 1
            evs.append(json.dumps(o))
    print("\n".join(evs))
    n, bad, st = tlc.validate("TraceTimingSafe", os.path.join(tlc.SPEC, "TraceTimingSafe.cfg"), evs, workdir, jvms=1)
    for bd in bad:
        res.violations.append(dict(desc="replayed: %s" % bd["why"], cluster=bd["why"], slug="ts-replay", dev="", replay=rp))
    return res
