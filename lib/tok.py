"""C14 engine: Tok.tla model-checked; every session of the bounded model replayed through
strtok_s and wcstok_s (htok); recorded sessions validated by TraceTok.tla."""
import json
import os
import random
import subprocess
from concurrent.futures import ThreadPoolExecutor

from . import build, tlc
from .engines_common import Result

DELIMS = {1: [3], 2: [4], 3: [3, 4], 4: []}


def session_line(sid, w, place, buf, dmax0, calls):
    parts = ["%d %d %d %d %d %d" % (sid, w, place, len(buf), dmax0, len(calls)), " ".join(map(str, buf))]
    for ds in calls:
        parts.append("%d %s" % (len(ds), " ".join(map(str, ds))))
    return " ".join(parts)


def random_session(rnd, maxlen):
    n = rnd.randint(0, maxlen)
    weights = [(1, 4), (2, 4), (3, 3), (4, 2), (5, 1)]
    pool = [v for v, wt in weights for _ in range(wt)]
    s = [rnd.choice(pool) for _ in range(n)]
    extra = rnd.choice([0, 1, 1, 2, 5, -1, -2, -3])     # negative: the declared extent ends inside the string
    buf = s + [0, 7, 7]
    dmax0 = max(1, n + extra)
    if n >= 1 and rnd.random() < 0.1:
        buf, dmax0 = s, n           # no terminator at all: the buffer ends exactly at dmax
    allsets = [[3], [4], [3, 4], [5, 3], [3, 4, 5], [], [10 + i for i in range(14)] + [3, 4], [10 + i for i in range(15)] + [3]]
    fixed = rnd.random() < 0.6
    ds0 = rnd.choice(allsets)
    calls = [ds0 if fixed else rnd.choice(allsets) for _ in range(n // 2 + 4)]
    return buf, dmax0, calls


def run(prop, tier, seed, workdir):
    res = Result("tok")
    rnd = random.Random(seed)
    L = 4 if tier == "quick" else 5
    cfg = os.path.join(workdir, "tok.cfg")
    tlc.write_cfg(cfg, constants=dict(L=L), invariants=["C14_Tokens", "C14_InPlace", "C14_Complete", "C14_Bounds"])
    r = tlc.model_check("Tok", cfg, workdir, workers=16, dump=True)
    if r["violated"] or not r["ok"]:
        raise tlc.TLCError("Tok model violates C14: %s\n%s" % (r["violated"], r["out"][-2000:]))
    sessions = []
    seen = set()
    for st in tlc.iter_dump(r["dump_path"], var="s"):      # streamed: the dump of the thorough scope is several GB
        if not (st.get("err") or st.get("nulls") == 2):
            continue
        key = (tuple(st["buf0"]), st["dmax0"], tuple(st["calls"]))
        if key in seen:
            continue
        seen.add(key)
        # one more call after the end of the model behaviour: NULL forever
        calls = [DELIMS[c] for c in st["calls"]] + [DELIMS[st["calls"][-1]]]
        sessions.append((st["buf0"], st["dmax0"], calls))
    os.unlink(r["dump_path"])
    nmodel = len(sessions)
    if tier == "quick" and len(sessions) > 12000:
        sessions = rnd.sample(sessions, 12000)
    nrand = 1500 if tier == "quick" else 25000
    for _ in range(nrand):
        sessions.append(random_session(rnd, 12 if rnd.random() < 0.8 else 150))
    b = build.ensure(["slack"], [("htok", "slack")])
    exe = b[("htok", "slack")]
    lines = []
    meta = {}
    sid = 0
    for (buf, dmax0, calls) in sessions:
        for w in (1, 4):
            for place in (0, 1):
                sid += 1
                meta[sid] = (w, place, buf, dmax0, calls)
                lines.append(session_line(sid, w, place, buf, dmax0, calls))
    k = 16
    size = (len(lines) + k - 1) // k
    chunks = [lines[i * size:(i + 1) * size] for i in range(k) if lines[i * size:(i + 1) * size]]

    def runchunk(ch):
        p = subprocess.run([exe], input="\n".join(ch) + "\n", stdout=subprocess.PIPE, stderr=subprocess.PIPE, text=True, timeout=1200)
        if p.returncode != 0:
            raise RuntimeError("htok failed rc=%d: %s" % (p.returncode, p.stderr[-500:]))
        return p.stdout.splitlines()

    def val(g):
        return tlc.validate("TraceTok", os.path.join(tlc.SPEC, "TraceTok.cfg"), g, workdir, jvms=1, timeout=1800 if tier == "quick" else 6000)
    with ThreadPoolExecutor(max_workers=k) as ex:
        outs = list(ex.map(runchunk, chunks))
        # judged in pieces of at most 30000 events that begin with a session (the trace spec carries the list of rejected /
        # deviating events in its state: very long pieces make every state large)
        pieces = []
        for o in outs:
            cur = []
            for ln in o:
                if len(cur) >= 30000 and ln.startswith('{"e":"Reset"'):
                    pieces.append(cur)
                    cur = []
                cur.append(ln)
            if cur:
                pieces.append(cur)
        total, bad, tstates = 0, [], 0
        for n, bd, stt in ex.map(val, pieces):
            total += n
            bad += bd
            tstates += stt
    for bd in bad:
        sid = bd["i"] // 1000
        w, place, buf, dmax0, calls = meta[sid]
        fn = "strtok_s" if w == 1 else "wcstok_s"
        res.violations.append(dict(
            desc="%s session buf=%s dmax=%d delims=%s place=%d: call #%d rejected (%s)" % (fn, buf, dmax0, calls[:4], place, bd["i"] % 1000, bd["why"]),
            cluster="%s|%s" % (fn, bd["why"]), slug="tok-%d" % sid, dev=bd["dev"],
            replay=dict(kind="tok", w=w, place=place, buf=buf, dmax0=dmax0, calls=calls, why=bd["why"], call_index=bd["i"] % 1000)))
    res.coverage = dict(
        states=r["distinct"], transitions=r["states"], traces_validated_against_impl=len(lines), evaluations=total,
        distinct_nontrivial=len({(tuple(s[0]), s[1]) for s in sessions if any(c in (1, 2) for c in s[0])}),
        rule="TLC explores every tokenising session over strings of length <= %d on {x,y,',',';'} with dmax <, =, > strlen+1 and delimiter sets "
             "{,} {;} {,;} {} changing between calls, until two consecutive NULLs, checking C14_Tokens/C14_InPlace/C14_Complete/C14_Bounds; "
             "every distinct session (quick: a seeded sample of 12000 when more) plus random sessions (length <= 150, delimiter sets of length "
             "0..17) is replayed through strtok_s and wcstok_s, flush against the trailing and the leading guard page, and validated by "
             "TraceTok.tla. non-trivial = distinct (string, dmax) pairs containing at least one non-delimiter" % L,
        samples=[dict(buf=s[0], dmax=s[1], delims=s[2]) for s in (sessions[0], sessions[len(sessions) // 2], sessions[-1])],
        model_sessions=nmodel, exhaustive=(tier != "quick" or nmodel <= 12000),
        checker_cmd="tlc Tok.tla (INVARIANTS C14_*); tlc TraceTok.tla")
    from . import testtrace
    testtrace.run_tok(res, workdir)
    res.assumptions = ["model bound: strings of length <= %d; longer strings only by seeded random sessions" % L,
                       "delimiter strings longer than 2 only in the random sessions"]
    return res


def replay(rp, workdir):
    res = Result("tok-replay")
    b = build.ensure(["slack"], [("htok", "slack")])
    line = session_line(1, rp["w"], rp["place"], rp["buf"], rp["dmax0"], rp["calls"])
    p = subprocess.run([b[("htok", "slack")]], input=line + "\n", stdout=subprocess.PIPE, text=True, timeout=120)
    n, bad, st = tlc.validate("TraceTok", os.path.join(tlc.SPEC, "TraceTok.cfg"), p.stdout.splitlines(), workdir, jvms=1)
    print(p.stdout)
    for bd in bad:
        res.violations.append(dict(desc="replayed session rejected at call %d (%s)" % (bd["i"] % 1000, bd["why"]), cluster=bd["why"], slug="tok-replay", dev=bd["dev"], replay=rp))
    return res
