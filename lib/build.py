"""Build safeclib from /repo's *current working tree* into a content-addressed cache.

Never runs make in /repo (even `make -n -B` re-runs configure there).  The source
list is obtained by expanding the object-list variables of the generated
/repo/src/Makefile.  Flavours:

  slack    gcc -O2, SAFECLIB_STR_NULL_SLACK as configured (default: on)   -> libsafec.a
  noslack  same with SAFECLIB_STR_NULL_SLACK undefined (shadow safe_config.h)
  o0       gcc -O0 (the repository's own CFLAGS carry no -O)               -> libsafec.a
  asan     clang-14 -O1 -fsanitize=address,undefined                       -> libsafec.a
  so       gcc -O2 -fPIC, linked -z relro -z now                           -> libsafec_v.so
"""
import fcntl
import hashlib
import os
import re
import shutil
import time
import subprocess
import sys
import tempfile
from concurrent.futures import ThreadPoolExecutor

REPO = os.environ.get("VERIF_REPO", "/repo")
VERIF = os.path.dirname(os.path.dirname(os.path.abspath(__file__)))
CACHE = os.path.join(VERIF, ".cache")
GUARD = "SAFEC_VERIF"

GENERATED = ["config.h", "include/safe_config.h", "include/safe_lib_errno.h", "include/safe_types.h"]


class BuildError(Exception):
    pass


def _expand(vars_, name, seen=None):
    seen = seen or set()
    if name in seen:
        return []
    seen.add(name)
    out = []
    for tok in vars_.get(name, "").split():
        m = re.fullmatch(r"\$\((\w+)\)", tok)
        if m:
            out += _expand(vars_, m.group(1), seen)
        else:
            out.append(tok)
    return out


def source_list():
    mk = os.path.join(REPO, "src", "Makefile")
    if not os.path.exists(mk):
        raise BuildError("no generated src/Makefile in %s" % REPO)
    text = open(mk).read().replace("\\\n", " ")
    vars_ = {}
    for line in text.splitlines():
        if line.startswith("#"):
            continue
        m = re.match(r"^(\w+)\s*=\s*(.*)$", line)
        if m:
            vars_[m.group(1)] = m.group(2)
    objs = []
    for v in ("am_libsafec_la_OBJECTS", "am_libsafeccore_la_OBJECTS", "am_libmemprims_la_OBJECTS"):
        objs += _expand(vars_, v)
    srcs = []
    for o in objs:
        if not o.endswith(".lo"):
            continue
        c = os.path.join("src", o[:-3] + ".c")
        if c not in srcs and os.path.exists(os.path.join(REPO, c)):
            srcs.append(c)
    if len(srcs) < 100:
        raise BuildError("source list too short (%d)" % len(srcs))
    return srcs


def tree_hash():
    h = hashlib.sha256()
    roots = [os.path.join(REPO, "src"), os.path.join(REPO, "include")]
    files = []
    for r in roots:
        for dp, dn, fn in os.walk(r):
            dn.sort()
            for f in sorted(fn):
                if f.endswith((".c", ".h")) or f == "Makefile":
                    files.append(os.path.join(dp, f))
    files.append(os.path.join(REPO, "config.h"))
    for f in files:
        try:
            with open(f, "rb") as fh:
                data = fh.read()
        except OSError:
            data = b"<missing>"
        h.update(f.encode() + b"\0" + hashlib.sha256(data).digest())
    h.update(open(os.path.abspath(__file__), "rb").read())
    return h.hexdigest()[:20]


def harness_hash():
    h = hashlib.sha256()
    for dp, dn, fn in os.walk(os.path.join(VERIF, "harness")):
        dn.sort()
        for f in sorted(fn):
            p = os.path.join(dp, f)
            h.update(p.encode() + b"\0" + hashlib.sha256(open(p, "rb").read()).digest())
    return h.hexdigest()[:10]


FLAVOURS = {
    "slack": dict(cc="gcc", cflags=["-O2", "-fPIC"], noslack=False),
    "noslack": dict(cc="gcc", cflags=["-O2", "-fPIC"], noslack=True),
    "o0": dict(cc="gcc", cflags=["-O0", "-fPIC"], noslack=False),
    "o3": dict(cc="gcc", cflags=["-O3", "-fPIC"], noslack=False),
    # link-time-optimisation builds of the library for the secure-erase matrix (C18): the archive holds LTO objects
    "lto_O0": dict(cc="gcc", cflags=["-O0", "-flto"], noslack=False, ar="gcc-ar"),
    "lto_O1": dict(cc="gcc", cflags=["-O1", "-flto"], noslack=False, ar="gcc-ar"),
    "lto_O2": dict(cc="gcc", cflags=["-O2", "-flto"], noslack=False, ar="gcc-ar"),
    "lto_O3": dict(cc="gcc", cflags=["-O3", "-flto"], noslack=False, ar="gcc-ar"),
    "lto_Os": dict(cc="gcc", cflags=["-Os", "-flto"], noslack=False, ar="gcc-ar"),
    # the same with clang (LLVM bitcode archives)
    "clto_O0": dict(cc="clang", cflags=["-O0", "-flto"], noslack=False, ar="llvm-ar"),
    "clto_O1": dict(cc="clang", cflags=["-O1", "-flto"], noslack=False, ar="llvm-ar"),
    "clto_O2": dict(cc="clang", cflags=["-O2", "-flto"], noslack=False, ar="llvm-ar"),
    "clto_O3": dict(cc="clang", cflags=["-O3", "-flto"], noslack=False, ar="llvm-ar"),
    "clto_Os": dict(cc="clang", cflags=["-Os", "-flto"], noslack=False, ar="llvm-ar"),
    "asan": dict(cc="clang", cflags=["-O1", "-g", "-fno-omit-frame-pointer", "-fsanitize=address,undefined",
                                      "-fno-sanitize-recover=undefined", "-fno-sanitize=alignment"], noslack=False),
}

COMMON = ["-DHAVE_CONFIG_H", "-D" + GUARD + "=1", "-fno-strict-aliasing", "-w"]


def _includes(shadow=None):
    inc = []
    if shadow:
        inc.append("-I" + shadow)
    inc += ["-I" + REPO, "-I" + REPO + "/include", "-I" + REPO + "/src"]
    return inc


def _run(cmd, **kw):
    p = subprocess.run(cmd, stdout=subprocess.PIPE, stderr=subprocess.STDOUT, text=True, **kw)
    if p.returncode != 0:
        raise BuildError("command failed: %s\n%s" % (" ".join(cmd), p.stdout[-4000:]))
    return p.stdout


def _compile_many(jobs):
    def one(j):
        return _run(j)
    with ThreadPoolExecutor(max_workers=os.cpu_count() or 8) as ex:
        list(ex.map(one, jobs))


def _make_shadow(dirpath):
    """copy of include/safe_config.h with SAFECLIB_STR_NULL_SLACK undefined"""
    os.makedirs(dirpath, exist_ok=True)
    src = open(os.path.join(REPO, "include", "safe_config.h")).read()
    out = re.sub(r"^\s*#\s*define\s+SAFECLIB_STR_NULL_SLACK\b.*$", "#undef SAFECLIB_STR_NULL_SLACK", src, flags=re.M)
    open(os.path.join(dirpath, "safe_config.h"), "w").write(out)


def check_generated():
    missing = [g for g in GENERATED if not os.path.exists(os.path.join(REPO, g))]
    if missing:
        raise BuildError("generated headers missing in %s: %s (run ./configure in the repository)" % (REPO, missing))


def _build_flavour(name, outdir, srcs):
    fl = FLAVOURS[name]
    os.makedirs(outdir, exist_ok=True)
    shadow = None
    if fl["noslack"]:
        shadow = os.path.join(outdir, "shadow")
        _make_shadow(shadow)
    jobs, objs = [], []
    for s in srcs:
        o = os.path.join(outdir, s.replace("/", "_")[:-2] + ".o")
        objs.append(o)
        jobs.append([fl["cc"]] + fl["cflags"] + COMMON + _includes(shadow) + ["-c", os.path.join(REPO, s), "-o", o])
    _compile_many(jobs)
    lib = os.path.join(outdir, "libsafec.a")
    _run([fl.get("ar", "ar"), "rcs", lib] + objs)
    for o in objs:
        os.unlink(o)
    return lib


def _build_so(outdir, srcs):
    os.makedirs(outdir, exist_ok=True)
    jobs, objs = [], []
    for s in srcs:
        o = os.path.join(outdir, s.replace("/", "_")[:-2] + ".o")
        objs.append(o)
        jobs.append(["gcc", "-O2", "-fPIC"] + COMMON + _includes() + ["-c", os.path.join(REPO, s), "-o", o])
    _compile_many(jobs)
    lib = os.path.join(outdir, "libsafec_v.so")
    _run(["gcc", "-shared", "-o", lib] + objs + ["-Wl,-z,relro", "-Wl,-z,now", "-lm"])
    for o in objs:
        os.unlink(o)
    return lib


HARNESS_PROGS = {
    # name: (sources, flavour, extra flags)
}


def harness_sources():
    hd = os.path.join(VERIF, "harness")
    return sorted(f for f in os.listdir(hd) if f.endswith(".c"))


def _prune(keep):
    try:
        ents = [e for e in os.listdir(CACHE) if re.fullmatch(r"[0-9a-f]{20}", e)]
    except OSError:
        return
    ents.sort(key=lambda e: os.path.getmtime(os.path.join(CACHE, e)), reverse=True)
    now = time.time()
    for e in ents[3:]:
        # never a tree that may be in use by a check running next to this one (checks of different trees can run concurrently)
        if e != keep and now - os.path.getmtime(os.path.join(CACHE, e)) > 3600:
            shutil.rmtree(os.path.join(CACHE, e), ignore_errors=True)


def ensure(flavours=("slack",), progs=()):
    """Return dict with paths for the requested library flavours and harness programs,
    building whatever is missing for the current /repo tree."""
    check_generated()
    os.makedirs(CACHE, exist_ok=True)
    key = tree_hash()
    root = os.path.join(CACHE, key)
    lock = open(os.path.join(CACHE, ".lock"), "w")
    fcntl.flock(lock, fcntl.LOCK_EX)
    try:
        os.makedirs(root, exist_ok=True)
        os.utime(root)
        srcs = None
        out = {"key": key, "root": root}
        for fl in flavours:
            d = os.path.join(root, fl)
            target = os.path.join(d, "libsafec_v.so" if fl == "so" else "libsafec.a")
            if not os.path.exists(target):
                srcs = srcs or source_list()
                tmp = tempfile.mkdtemp(prefix=fl + ".", dir=root)
                try:
                    if fl == "so":
                        _build_so(tmp, srcs)
                    else:
                        _build_flavour(fl, tmp, srcs)
                    if os.path.exists(d):
                        shutil.rmtree(d)
                    os.rename(tmp, d)
                except Exception:
                    shutil.rmtree(tmp, ignore_errors=True)
                    raise
            out[fl] = target
        for prog, fl in progs:
            out[(prog, fl)] = build_prog(root, prog, fl)
        _prune(key)
        return out
    finally:
        fcntl.flock(lock, fcntl.LOCK_UN)
        lock.close()


PROG_SPECS = {
    # prog name -> (list of harness sources, extra link flags)
    "hx": (["hx.c"], ["-lm", "-lpthread"]),
    "htok": (["htok.c"], ["-lm"]),
    "hhand": (["hhand.c"], ["-lm", "-lpthread"]),
    "hpf": (["hpf.c"], ["-lm"]),
    "hsort": (["hsort.c"], ["-lm"]),
    "halloc": (["halloc.c"], ["-lm", "-no-pie", "-Wl,--wrap=malloc", "-Wl,--wrap=calloc", "-Wl,--wrap=realloc", "-Wl,--wrap=free"]),
    "hstat": (["hstat.c"], ["-lm", "-ldl"]),
    "hnorm": (["hnorm.c"], ["-lm"]),
    "hmbs": (["hmbs.c"], ["-lm"]),
    "hts": (["hts.c"], ["-lm", "-no-pie"]),
    "hq": (["hq.c"], ["-lm"]),
    "hos": (["hos.c"], ["-lm"]),
}


def build_prog(root, prog, fl):
    srcs, extra = PROG_SPECS[prog]
    d = os.path.join(root, fl)
    exe = os.path.join(d, prog + "-" + harness_hash())
    if os.path.exists(exe):
        return exe
    hd = os.path.join(VERIF, "harness")
    shadow = os.path.join(d, "shadow") if FLAVOURS.get(fl, {}).get("noslack") else None
    if fl == "so":
        cmd = ["gcc", "-O1", "-g", "-w"] + _includes() + ["-I" + hd] + [os.path.join(hd, s) for s in srcs] + \
              ["-o", exe + ".tmp", "-L" + d, "-lsafec_v", "-Wl,-rpath," + d, "-Wl,-z,now"] + extra
    elif fl == "asan":
        cmd = ["clang", "-O1", "-g", "-w", "-fsanitize=address,undefined", "-fno-sanitize=alignment"] + _includes() + ["-I" + hd] + \
              [os.path.join(hd, s) for s in srcs] + [os.path.join(d, "libsafec.a"), "-o", exe + ".tmp"] + extra
    else:
        cmd = ["gcc", "-O1", "-g", "-w", "-fno-builtin"] + _includes(shadow) + ["-I" + hd] + \
              [os.path.join(hd, s) for s in srcs] + [os.path.join(d, "libsafec.a"), "-o", exe + ".tmp"] + extra
    _run(cmd)
    os.rename(exe + ".tmp", exe)
    return exe


if __name__ == "__main__":
    fls = sys.argv[1:] or ["slack", "noslack", "so"]
    r = ensure(fls)
    print(r)
