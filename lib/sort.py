"""C16 engine: Sort.tla enumerates all key patterns; hsort executes qsort_s/bsearch_s on every pattern for a range
of element sizes in guarded memory; TraceSort.tla validates."""
import json
import os
import random
import subprocess
from concurrent.futures import ThreadPoolExecutor

from . import build, tlc
from .engines_common import Result

SIZES_Q = [1, 2, 3, 4, 8, 24, 257]
SIZES_T = [1, 2, 3, 4, 7, 8, 16, 24, 255, 256, 257, 300]


def run(prop, tier, seed, workdir):
    res = Result("sort")
    rnd = random.Random(seed)
    maxn = 7 if tier == "quick" else 9
    cfg = os.path.join(workdir, "sort.cfg")
    tlc.write_cfg(cfg, constants=dict(MaxN=maxn, Keys={0, 1, 2}), invariants=["Sound", "BSound"])
    r = tlc.model_check("Sort", cfg, workdir, workers=16, dump=True)
    if r["violated"] or not r["ok"]:
        raise tlc.TLCError("Sort contract inconsistent: %s\n%s" % (r["violated"], r["out"][-1500:]))
    # algorithm layer: the smoothsort of qsort_s transcribed (Smooth.tla); the code must sort every array, the two seeded
    # changes of it that the unit tests pass must be rejected
    sm_n = 8 if tier == "quick" else 10
    sm_states = 0
    for variant, must_hold in (("code", True), ("order2", False), ("finalheap", False)):
        scfg = os.path.join(workdir, "smooth_%s.cfg" % variant)
        tlc.write_cfg(scfg, spec="FairSpec" if must_hold else "Spec", constants=dict(MaxN=sm_n if must_hold else 8, Keys={0, 1, 2}, Variant=variant),
                      invariants=["Sorted", "InHeapArea"], properties=["Decreasing", "Terminates"] if must_hold else [])
        rs = tlc.model_check("Smooth", scfg, workdir, workers=16)
        if must_hold and (rs["violated"] or not rs["ok"]):
            raise tlc.TLCError("Smooth.tla: the transcribed algorithm violates %s\n%s" % (rs["violated"], rs["out"][-1500:]))
        if not must_hold and not rs["violated"]:
            raise tlc.TLCError("self-test: Smooth.tla does not reject the variant %s" % variant)
        if must_hold:
            sm_states = rs["distinct"]
    # ... and the search loop of bsearch_s (BSearch.tla)
    for variant, must_hold in (("code", True), ("upperhalf", False)):
        bcfg = os.path.join(workdir, "bsearch_%s.cfg" % variant)
        tlc.write_cfg(bcfg, spec="FairSpec" if must_hold else "Spec", constants=dict(MaxN=7 if tier == "quick" else 9, Keys={0, 1, 2, 3}, Variant=variant),
                      invariants=["Result", "InArray"], properties=["Shrinks", "Terminates"] if must_hold else [])
        rb = tlc.model_check("BSearch", bcfg, workdir, workers=8)
        if must_hold and (rb["violated"] or not rb["ok"]):
            raise tlc.TLCError("BSearch.tla: the transcribed loop violates %s\n%s" % (rb["violated"], rb["out"][-1500:]))
        if not must_hold and not rb["violated"]:
            raise tlc.TLCError("self-test: BSearch.tla does not reject the variant %s" % variant)
        if must_hold:
            sm_states += rb["distinct"]
    states = [s for s in tlc.parse_dump(r["dump_path"]) if s.get("op") in ("q", "b")]
    os.unlink(r["dump_path"])
    sizes = SIZES_Q if tier == "quick" else SIZES_T
    lines, meta = [], {}
    cid = 0
    for s in states:
        arr = s.get("arr", [])
        for sz in sizes:
            if tier == "quick" and len(arr) >= 6 and sz not in (1, 4, 257):
                continue
            for place in (0, 1):
                cid += 1
                meta[cid] = (s["op"], arr, sz, s.get("key", 0), place)
                lines.append("%d %s %d %d %d %d %s" % (cid, s["op"], place, len(arr), sz, s.get("key", 0), " ".join(map(str, arr))))
    # random larger arrays (P2)
    nbig = 150 if tier == "quick" else 4000
    for _ in range(nbig):
        n = rnd.choice([9, 16, 17, 31, 64, 100, 255, 256, 257, 500, 1000, 2000])
        if tier == "quick" and n > 500:
            n = 300
        arr = [rnd.randint(0, 2) if rnd.random() < 0.5 else rnd.randint(0, 200) for _ in range(n)]
        op = "q" if rnd.random() < 0.7 else "b"
        if op == "b":
            arr.sort()
        sz = rnd.choice(SIZES_T)
        cid += 1
        key = rnd.choice(arr) if arr and rnd.random() < 0.6 else 201
        meta[cid] = (op, arr, sz, key, 0)
        lines.append("%d %s %d %d %d %d %s" % (cid, op, 0, n, sz, key, " ".join(map(str, arr))))
    # every nmemb up to a few Leonardo orders (the heap shapes of the smoothsort differ with every nmemb: which orders exist, which
    # heap is trinkled with a stepson, which is the last one), a few keys so that ties and "child > stepson > new element" relations occur
    import itertools
    if tier == "quick":
        for pat in itertools.product((0, 1, 2), repeat=8):          # one more nmemb than the model's patterns, one element size
            cid += 1
            meta[cid] = ("q", list(pat), 4, 0, 0)
            lines.append("%d q 0 8 4 0 %s" % (cid, " ".join(map(str, pat))))
    nshape = (8, 72, 40) if tier == "quick" else (8, 180, 300)
    for n in range(nshape[0], nshape[1]):
        for _ in range(nshape[2]):
            arr = [rnd.randint(0, 7) for _ in range(n)]
            sz = rnd.choice((1, 4, 8, 24))
            cid += 1
            meta[cid] = ("q", arr, sz, 0, 0)
            lines.append("%d q 0 %d %d 0 %s" % (cid, n, sz, " ".join(map(str, arr))))
    nbig += (nshape[1] - nshape[0]) * nshape[2]
    b = build.ensure(["slack"], [("hsort", "slack")])
    exe = b[("hsort", "slack")]
    k = 16
    size = (len(lines) + k - 1) // k
    chunks = [lines[i * size:(i + 1) * size] for i in range(k) if lines[i * size:(i + 1) * size]]

    def runchunk(ch):
        out = []
        pos = 0
        while pos < len(ch):
            p = subprocess.run([exe], input="\n".join(ch[pos:]) + "\n", stdout=subprocess.PIPE, stderr=subprocess.PIPE, text=True, timeout=1200)
            got = [ln for ln in p.stdout.splitlines() if ln.startswith("{")]
            out += got
            pos += len(got)
            if pos < len(ch):
                cid_ = int(ch[pos].split()[0])
                out.append(json.dumps(dict(id=cid_, fn="qsort_s", nmemb=0, size=0, key=0, pre=[], post=[], tags=[], hastags=False, fill_ok=True, rc=-9999, ret=-1, ncmp=0,
                                           cmp_bad_ptr=0, cmp_bad_ctx=0, h=[], hn=0, hk="", errno=0, frame_ok=True, fault="abort", foff=0)))
                pos += 1
        return out
    with ThreadPoolExecutor(max_workers=k) as ex:
        outs = list(ex.map(runchunk, chunks))
        total, bad, tst = 0, [], 0
        for n, bd, st in ex.map(lambda g: tlc.validate("TraceSort", os.path.join(tlc.SPEC, "TraceSort.cfg"), g, workdir, jvms=1, heap="3g"), outs):
            total += n
            bad += bd
            tst += st
    for bd in bad:
        op, arr, sz, key, place = meta[bd["i"]]
        res.violations.append(dict(desc="%s nmemb=%d size=%d keys=%s%s place=%d: %s" % ("qsort_s" if op == "q" else "bsearch_s", len(arr), sz, arr[:12], "..." if len(arr) > 12 else "",
                                                                                          place, bd["why"]),
                                   cluster="%s|%s" % (op, bd["why"]), slug="sort-%d" % bd["i"], dev="",
                                   replay=dict(kind="sort", op=op, arr=arr, size=sz, key=key, place=place, why=bd["why"])))
    res.coverage = dict(
        states=r["distinct"] + sm_states, transitions=r["states"], traces_validated_against_impl=total, evaluations=total, algorithm_layer_states=sm_states,
        distinct_nontrivial=len({(m[0], tuple(m[1])) for m in meta.values() if len(m[1]) >= 2}),
        rule="TLC enumerates every key pattern over {0,1,2} for nmemb 0..%d (qsort_s) and every sorted pattern x searched key incl. an absent one (bsearch_s) and "
             "checks the contract operators for consistency; each pattern is executed for element sizes %s with the array flush against the trailing and the "
             "leading guard page (plus, in the quick tier, every pattern of nmemb 8 at size 4, and seeded arrays over 8 keys for every nmemb of a range of Leonardo heap shapes), the comparator recording every call whose pointers are not elements of the array or whose context is wrong; plus %d seeded "
             "random arrays up to nmemb 2000; TraceSort.tla requires a sorted permutation (by per-element tags and filler bytes), no foreign comparator "
             "argument, no write outside nmemb*size. non-trivial = distinct patterns with nmemb >= 2; algorithm layer: Smooth.tla is qsort_s's smoothsort "
             "(sift, trinkle, cycle, the bit set of Leonardo heap orders) transcribed statement by statement for element width 1: TLC runs it on every array of "
             "up to %d keys from {0,1,2} and checks Sorted (ordered permutation), InHeapArea, Decreasing and - under weak fairness - Terminates; the two seeded "
             "changes of the algorithm that the unit tests pass (stepson test skipped for order-2 heaps, wrong final-heap test) are shown to violate Sorted; BSearch.tla is the search loop of bsearch_s on every ordered array and key (Result, InArray, Shrinks, Terminates; a variant that keeps too little of the upper half is rejected)" % (maxn, sizes, nbig, sm_n),
        samples=[dict(op=meta[i][0], keys=meta[i][1][:16], size=meta[i][2]) for i in (1, len(meta) // 2, len(meta))], exhaustive=True,
        checker_cmd="tlc Sort.tla (INVARIANTS Sound BSound); tlc Smooth.tla (FairSpec: Sorted InHeapArea Decreasing Terminates); tlc BSearch.tla; tlc TraceSort.tla")
    res.assumptions = ["keys from a 3-value set exhaustively up to nmemb %d; larger arrays only by seeded sampling" % maxn,
                       "the comparator is total and consistent (the property quantifies over arrays and sizes, not over ill-behaved comparators)"]
    return res


def replay(rp, workdir):
    res = Result("sort-replay")
    b = build.ensure(["slack"], [("hsort", "slack")])
    line = "1 %s %d %d %d %d %s" % (rp["op"], rp["place"], len(rp["arr"]), rp["size"], rp["key"], " ".join(map(str, rp["arr"])))
    p = subprocess.run([b[("hsort", "slack")]], input=line + "\n", stdout=subprocess.PIPE, text=True, timeout=120)
    evs = [ln for ln in p.stdout.splitlines() if ln.startswith("{")]
    print("\n".join(evs)[:2000])
    n, bad, st = tlc.validate("TraceSort", os.path.join(tlc.SPEC, "TraceSort.cfg"), evs, workdir, jvms=1)
    for bd in bad:
        res.violations.append(dict(desc="replayed: %s" % bd["why"], cluster=bd["why"], slug="sort-replay", dev="", replay=rp))
    return res
