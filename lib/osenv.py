"""Engine for the OsEnv functions (strerror_s, asctime_s, ctime_s, getenv_s, gmtime_s, localtime_s, gets_s): part of C01-C06 and C08.
GenOsEnv.tla enumerates the call space (TLC), hos executes every call in both slack builds next to the standard function,
TraceOsEnv.tla (OsEnv!Why) judges; the reason names the properties violated."""
import json
import os
import subprocess
from concurrent.futures import ThreadPoolExecutor

from . import build, tlc

FN = {1: "strerror_s", 2: "asctime_s", 3: "ctime_s", 4: "getenv_s", 5: "gmtime_s", 6: "localtime_s", 7: "gets_s", 8: "fopen_s", 9: "freopen_s", 10: "tmpfile_s"}
BIGT = 313360441200      # MAX_TIME_T_STR of the library (documented limit of the time functions)


def line(cid, st):
    args = list(st["args"])
    if st["fn"] == 3 and args[1] == 2000000000:
        args[1] = BIGT
    if st["fn"] in (5, 6) and args[2] == 2000000000:
        args[2] = BIGT
    return "%d %d %d %d %d %s" % (cid, st["fn"], st["dmax"], st["dnull"], st["pre"], " ".join(map(str, args)))


def describe(st):
    return "%s(dmax=%d%s pre=%d args=%s)" % (FN[st["fn"]], st["dmax"], " dest=NULL" if st["dnull"] else "", st["pre"], st["args"][:12])


def generate(workdir):
    cfg = os.path.join(workdir, "osenv.cfg")
    tlc.write_cfg(cfg, invariants=["AsctimeShape"])
    r = tlc.model_check("GenOsEnv", cfg, workdir, workers=16, dump=True)
    if r["violated"] or not r["ok"]:
        raise tlc.TLCError("GenOsEnv: %s\n%s" % (r["violated"], r["out"][-1500:]))
    states = [s for s in tlc.parse_dump(r["dump_path"], var="st") if s.get("fn")]
    os.unlink(r["dump_path"])
    for s in states:
        s.setdefault("args", [])
    return states, r


def execute(states, workdir, flavours=("slack", "noslack")):
    b = build.ensure(list(flavours), [("hos", f) for f in flavours])
    lines = [line(i + 1, s) for i, s in enumerate(states)]
    k = 16
    size = (len(lines) + k - 1) // k
    chunks = [lines[i * size:(i + 1) * size] for i in range(k) if lines[i * size:(i + 1) * size]]
    events = []
    for fl in flavours:
        exe = b[("hos", fl)]

        def runchunk(ch, exe=exe, fl=fl):
            out, pos = [], 0
            while pos < len(ch):
                p = subprocess.run([exe], input="\n".join(ch[pos:]) + "\n", stdout=subprocess.PIPE, stderr=subprocess.PIPE, text=True, timeout=600)
                got = [ln for ln in p.stdout.splitlines() if ln.startswith("{")]
                out += got
                pos += len(got)
                if pos < len(ch):      # the harness died in this call (e.g. abort inside libc): recorded as a fault
                    t = ch[pos].split()
                    out.append(json.dumps(dict(id=int(t[0]), fn=int(t[1]), dmax=int(t[2]), dnull=int(t[3]), pre=int(t[4]), args=[int(x) for x in t[5:]], post=[], ref=[], refn=-1, sp=-1, referr=-1,
                                               rc=-9999, len=-1, same=-1, tyear=0, h=[], hn=0, hk="", frame_ok=True, fault="abort")))
                    pos += 1
            return ['{"slack":%d,' % (1 if fl == "slack" else 0) + ln[1:] for ln in out]
        with ThreadPoolExecutor(max_workers=k) as ex:
            for o in ex.map(runchunk, chunks):
                events += o
    return events


def judge(events, workdir):
    return tlc.validate("TraceOsEnv", os.path.join(tlc.SPEC, "TraceOsEnv.cfg"), events, workdir, jvms=16, heap="2g")


def run_props(prop, tier, seed, workdir, res):
    """adds the OsEnv findings for `prop` to res (an arena Result)"""
    states, r = generate(workdir)
    events = execute(states, workdir)
    from . import testtrace
    corp = testtrace.corpus("os", workdir)            # the calls of the repository's own tests, same judge
    base = 10000000
    corp_states = {}
    for ln in corp:
        e = json.loads(ln)
        corp_states[base + e["id"]] = dict(fn=e["fn"], dmax=e["dmax"], dnull=e["dnull"], pre=e["pre"], args=e["args"], corpus=e.get("prog", "tests"))
        e["id"] += base
        events.append(json.dumps(e, separators=(",", ":")))
    n, bad, st = judge(events, workdir)
    mine = 0
    for bd in bad:
        s = corp_states.get(bd["i"]) or states[bd["i"] - 1]
        if bd["why"].startswith("ORACLE"):
            raise tlc.TLCError("OsEnv: %s for %s" % (bd["why"], describe(s)))
        props, _, reason = bd["why"].partition(":")
        if prop not in props.split(","):
            continue
        mine += 1
        res.violations.append(dict(desc="%s: %s" % (describe(s), reason), cluster="%s|%s" % (FN[s["fn"]], reason), slug="os-%s-%d" % (FN[s["fn"]], bd["i"]), dev=bd.get("dev", ""),
                                   props=props.split(","), replay=dict(kind="osenv", state=s, why=bd["why"])))
    res.coverage["osenv_cases"] = len(states)
    res.coverage["osenv_calls_from_test_suite"] = len(corp)
    res.coverage["osenv_events"] = n
    res.coverage["states"] = res.coverage.get("states", 0) + r["distinct"]
    res.coverage["transitions"] = res.coverage.get("transitions", 0) + r["states"]
    res.coverage["evaluations"] = res.coverage.get("evaluations", 0) + n
    res.coverage["traces_validated_against_impl"] = res.coverage.get("traces_validated_against_impl", 0) + n
    res.coverage["rule"] += ("; plus the OsEnv functions strerror_s asctime_s ctime_s getenv_s gmtime_s localtime_s gets_s (GenOsEnv/TraceOsEnv: %d calls over dmax classes "
                             "0..beyond the limit, null / out-of-range / valid arguments, dest pre-filled with and without a terminator, both slack builds, the standard "
                             "function's text recorded next to each call; see coverage.osenv_cases)" % len(states))
    return res


def replay(rp, workdir, prop):
    from .engines_common import Result
    res = Result("osenv-replay")
    events = execute([rp["state"]], workdir)
    print("\n".join(events))
    n, bad, st = judge(events, workdir)
    for bd in bad:
        props, _, reason = bd["why"].partition(":")
        if prop in props.split(","):
            res.violations.append(dict(desc="replayed: %s" % reason, cluster=reason, slug="os-replay", dev=bd.get("dev", ""), replay=rp))
    return res
