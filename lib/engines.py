"""Per-property engines.  Each returns a Result; ./check turns it into VIOLATION /
KNOWN-FINDING lines, replay files and the evidence file."""
import json
import os
import random

from . import arena, build, tlc


from .engines_common import Result  # noqa: E402
from . import handlers, tok, printf, alloc, threads, p2, sort, norm, mbs, ts, erase, osenv, testtrace  # noqa: E402


# --------------------------------------------------------------------------------------
# single-arena families (GenArena / TraceArena)
# --------------------------------------------------------------------------------------
ALL8 = {"C01", "C02", "C03", "C04", "C05", "C06", "C07", "C08"}
ARENA_FAMILIES = {
    # name: functions, scopes per tier, properties the family can witness
    "strcopy": dict(
        fns=["strcpy_s", "strncpy_s", "strcat_s", "strncat_s", "stpcpy_s", "stpncpy_s",
             "wcscpy_s", "wcsncpy_s", "wcscat_s", "wcsncat_s"],
        quick=dict(N=6, K=3, BosMode=0), thorough=dict(N=8, K=4, BosMode=0), props=ALL8),
    "strcopy_bos": dict(
        fns=["strcpy_s", "strncpy_s", "strcat_s", "strncat_s", "stpcpy_s", "stpncpy_s",
             "wcscpy_s", "wcsncpy_s", "wcscat_s", "wcsncat_s"],
        quick=dict(N=4, K=2, BosMode=1), thorough=dict(N=5, K=3, BosMode=1), props={"C01", "C02", "C03", "C04", "C05", "C06"}),
    "memcopy": dict(
        fns=["memcpy_s", "memmove_s", "memcpy16_s", "memmove16_s", "memcpy32_s", "memmove32_s", "wmemcpy_s", "wmemmove_s", "memccpy_s"],
        quick=dict(N=6, K=3, BosMode=0), thorough=dict(N=9, K=5, BosMode=0), props={"C01", "C02", "C04", "C05", "C06", "C07"}),
    "memcopy_bos": dict(
        fns=["memcpy_s", "memmove_s", "memcpy16_s", "memmove16_s", "memcpy32_s", "memmove32_s", "wmemcpy_s", "wmemmove_s", "memccpy_s"],
        quick=dict(N=5, K=2, BosMode=1), thorough=dict(N=6, K=3, BosMode=1), props={"C01", "C02", "C04", "C05", "C06", "C07"}),
    "fill": dict(
        fns=["memset_s", "memset16_s", "memset32_s", "memzero_s", "memzero16_s", "memzero32_s",
             "strzero_s", "strset_s", "strnset_s", "wcsset_s", "wcsnset_s"],
        quick=dict(N=6, K=3, BosMode=1), thorough=dict(N=8, K=5, BosMode=1), props={"C01", "C02", "C03", "C05", "C06", "C08"}),
    "strfld": dict(
        fns=["strcpyfld_s", "strcpyfldin_s", "strcpyfldout_s"],
        quick=dict(N=6, K=3, BosMode=1), thorough=dict(N=8, K=4, BosMode=1), props={"C01", "C02", "C03", "C04", "C05", "C06", "C07", "C08"}),
    "query2": dict(
        fns=["strcmp_s", "strcasecmp_s", "strcoll_s", "strcmpfld_s", "wcscmp_s", "wcsncmp_s", "wcsicmp_s", "wcscoll_s", "strnatcmp_s", "strnatcasecmp_s", "wcsnatcmp_s", "wcsnaticmp_s", "memcmp_s", "memcmp16_s", "memcmp32_s", "wmemcmp_s",
             "strstr_s", "strcasestr_s", "wcsstr_s", "strpbrk_s", "strspn_s", "strcspn_s", "strfirstdiff_s", "strfirstsame_s",
             "strlastdiff_s", "strlastsame_s", "strprefix_s"],
        quick=dict(N=6, K=2, BosMode=0, QA=1), thorough=dict(N=7, K=3, BosMode=0, QA=1), props={"C10"}, flavours=("slack",)),
    "query2_small": dict(
        fns=["strcmp_s", "strcasecmp_s", "strcoll_s", "strcmpfld_s", "wcscmp_s", "wcsncmp_s", "wcsicmp_s", "wcscoll_s", "strnatcmp_s", "strnatcasecmp_s", "wcsnatcmp_s", "wcsnaticmp_s", "memcmp_s", "memcmp16_s", "memcmp32_s", "wmemcmp_s",
             "strstr_s", "strcasestr_s", "wcsstr_s", "strpbrk_s", "strspn_s", "strcspn_s", "strfirstdiff_s", "strfirstsame_s",
             "strlastdiff_s", "strlastsame_s", "strprefix_s"],
        quick=dict(N=5, K=2, BosMode=1, QA=0), thorough=dict(N=6, K=2, BosMode=1, QA=1), props={"C01", "C02", "C05"}, flavours=("slack",)),
    "query1": dict(
        fns=["strnlen_s", "wcsnlen_s", "strisalphanumeric_s", "strisascii_s", "strisdigit_s", "strishex_s", "strislowercase_s",
             "strismixedcase_s", "strisuppercase_s", "strchr_s", "strrchr_s", "strfirstchar_s", "strlastchar_s", "memchr_s", "memrchr_s", "strispassword_s"],
        quick=dict(N=6, K=2, BosMode=1, QA=1), thorough=dict(N=8, K=3, BosMode=1, QA=1), props={"C01", "C02", "C05", "C10"}, flavours=("slack",)),
    "xform": dict(
        fns=["strtolowercase_s", "strtouppercase_s", "wcslwr_s", "wcsupr_s", "strljustify_s", "strremovews_s", "strnterminate_s"],
        quick=dict(N=6, K=3, BosMode=1), thorough=dict(N=8, K=4, BosMode=1), props={"C01", "C02", "C03", "C05", "C06"}),
}


def _slug(b):
    e = b["event"]
    return "%s-%s-%d" % (e["fn"], b["flavour"], e["id"])


def _describe(b):
    e = b["event"]
    c = b["case"]
    what = "fault=%s@%s" % (e["fault"], e["foff"]) if e["fault"] != "none" else "rc=%s h=%s" % (e["rc"], e["h"])
    return "%s(d=%s dmax=%s s=%s slen=%s c=%s n=%s dbos=%s sbos=%s) %s build, place=%d: %s" % (
        e["fn"], c["d"], c["dmax"], c["s"], c["slen"], c["c"], c["n"], c["dbos"], c["sbos"], b["flavour"], b["place"], what)


def _cluster(b):
    e = b["event"]
    c = b["case"]
    cond = []
    cond.append("dnull" if c["d"] == 0 else "dhuge" if c["dmax"] < 0 else "dzero" if c["dmax"] == 0 else "d")
    cond.append("snull" if c["s"] == 0 else "s")
    cond.append("slenhuge" if c["slen"] < 0 else "slen0" if c["slen"] == 0 else "slen")
    return "%s|%s|%s|rc=%s|h=%s|%s|%s" % (e["fn"], b["flavour"], e["fault"], e["rc"], len(e["h"]), ",".join(cond), b["dev"])


def run_arena(prop, tier, seed, workdir, families=None):
    res = Result("arena")
    fams = [f for f, d in ARENA_FAMILIES.items() if prop in d["props"] and (families is None or f in families)]
    states = transitions = 0
    p2total = 0
    total_events = 0
    ncases = 0
    nontrivial = set()
    samples = []
    scopes = {}
    def one(fam):
        d = ARENA_FAMILIES[fam]
        scope = dict(d[tier])
        scope.setdefault("QA", 1)
        scope["Fns"] = set(d["fns"])
        cases, st = arena.gen_cases(fam, scope, workdir, workers=8)
        # P2: seeded calls beyond the TLC scope (sizes across the 0x20 memset switch, word-unrolled primitives), same judge
        extra = p2.cases(fam, seed, tier)
        cases = cases + extra
        n, bad, meta = arena.execute_and_judge(cases, workdir, flavours=d.get("flavours", ("slack", "noslack")))
        return fam, scope, cases, st, len(extra), n, bad

    # the families are independent of each other: a few at a time (each phase of one - TLC, the executor, the judging JVMs - is itself parallel)
    from concurrent.futures import ThreadPoolExecutor
    with ThreadPoolExecutor(max_workers=3 if tier == "quick" else 2) as ex:
        results = list(ex.map(one, fams))
    for fam, scope, cases, st, p2count, n, bad in results:
        scopes[fam] = {k: (sorted(v) if isinstance(v, set) else v) for k, v in scope.items()}
        states += st["distinct"]
        transitions += st["states"]
        ncases += len(cases) - p2count
        total_events += n
        p2total += p2count
        for ci, c in enumerate(cases):
            # non-trivial: a usable destination and a source, i.e. the call gets past the argument checks
            if c["d"] != 0 and c["dmax"] > 0 and (c["s"] != 0 or c["fn"] in NO_SRC):
                nontrivial.add((fam, ci))
        rnd = random.Random(seed)
        for c in rnd.sample(cases, min(3, len(cases))):
            samples.append(dict(family=fam, call=c))
        for b in bad:
            if prop not in b["props"]:
                continue
            res.violations.append(dict(desc=_describe(b), cluster=_cluster(b), slug=_slug(b), dev=b["dev"],
                                       replay=dict(kind="arena", case=b["case"], flavour=b["flavour"], place=b["place"],
                                                   observed=b["event"], props=b["props"])))
    res.coverage = dict(
        states=states, transitions=transitions, traces_validated_against_impl=total_events,
        evaluations=total_events, distinct_nontrivial=len(nontrivial),
        rule="TLC enumerates every call of the family scope (GenArena: all placements of dest/src in an arena of N cells, "
             "sizes 0..K and HUGE, NULL operands, terminated or not) and checks that every outcome the contract admits satisfies "
             "the property; each call is executed against the library built from /repo in the null-slack and no-slack builds, "
             "flush against the trailing and the leading guard page, and every recorded event is judged by TLC (TraceArena). "
             "non-trivial = distinct calls with a usable destination (non-NULL, 0 < dmax <= limit) and a non-NULL source",
        samples=samples, scopes=scopes, exhaustive=True, model_cases=ncases, p2_cases_beyond_scope=p2total,
        checker_cmd="tlc GenArena.tla (INVARIANT PropsHold) ; tlc TraceArena.tla")
    res.assumptions = [
        "small-scope hypothesis: arena of N cells, sizes up to K (see coverage.scopes)",
        "guard pages observe accesses to caller memory only; library-internal objects are not observed here",
        "the library is compiled from /repo's working tree with gcc -O2 and the repository's config.h",
    ]
    return res


NO_SRC = set(ARENA_FAMILIES['fill']['fns'] + ARENA_FAMILIES['xform']['fns'])

OSENV_PROPS = {"C01", "C02", "C03", "C04", "C05", "C06", "C08"}

# memory-safety observations of the engines that own another property: a write outside dest seen by the normalization or
# conversion engine is a C01 violation as well (a read fault a C02 violation); those engines place dest / src against guard pages
SAFETY_WHY = {"C01": ("write_fault", "write_outside_dest", "write_in_front_of_dest", "fault_w"), "C02": ("fault_r", "read_fault"),
              # the conversion functions are string-producing, destination-writing functions as well: their terminator, clearing,
              # reporting, result and slack obligations are C03 / C04 / C05 / C06 / C08 observations too
              "C03": ("unterminated",), "C04": ("dest_not_cleared",), "C05": ("report", "handler_on_success"),
              "C06": ("count_differs_from_standard", "content_differs_from_standard", "spurious_failure", "no_room_accepted", "encoding_error_accepted"),
              "C08": ("stale_slack",)}
SAFETY_ENGINES = {"C01": ("norm", "mbs", "tok"), "C02": ("norm", "mbs", "tok"), "C03": ("mbs", "norm"), "C04": ("mbs", "norm"), "C05": ("mbs", "norm"), "C06": ("mbs",), "C08": ("mbs", "norm")}


def _is_safety(prop, why):
    return any(why == w or why.endswith(":" + w) or why.endswith(w) for w in SAFETY_WHY.get(prop, ()))


TESTTRACE_PROPS = {"C01", "C02", "C03", "C04", "C05", "C06", "C07", "C08", "C10"}


def add_safety(prop, tier, seed, workdir, res):
    if prop in TESTTRACE_PROPS:
        testtrace.run_props(prop, tier, seed, workdir, res)      # the repository's own tests as a conformance corpus
    if prop not in SAFETY_WHY:
        return res
    extra = 0
    for name, fn, owner in (("norm", norm.run, "C17"), ("mbs", mbs.run, "C15"), ("tok", tok.run, "C14")):
        if name not in SAFETY_ENGINES.get(prop, ()):
            continue
        sub = fn(owner, tier, seed, workdir)
        extra += sub.coverage.get("evaluations", 0)
        for v in sub.violations:
            why = v["replay"].get("why", "")
            if _is_safety(prop, why):
                res.violations.append(v)
    res.coverage["events_from_engines_owning_other_properties"] = extra
    res.coverage["evaluations"] = res.coverage.get("evaluations", 0) + extra
    res.coverage["traces_validated_against_impl"] = res.coverage.get("traces_validated_against_impl", 0) + extra
    res.coverage["rule"] += ("; plus the observations that concern this property made by the engines that own another one (%s): memory-safety "
                             "(dest and source flush against inaccessible pages, every dmax from 1 upwards) for C01/C02, terminator / clearing / reporting / "
                             "result / slack of the conversion functions for C03-C06 and C08" % ", ".join(SAFETY_ENGINES.get(prop, ())))
    return res


def run_arena_and_printf(prop, tier, seed, workdir):
    res = run_arena(prop, tier, seed, workdir)
    printf.run_props(prop, tier, seed, workdir, res)
    res.coverage["rule"] += "; plus the formatted-output family (GenPrintf/TracePrintf, see coverage.printf_cases)"
    if prop in OSENV_PROPS:
        osenv.run_props(prop, tier, seed, workdir, res)
    add_safety(prop, tier, seed, workdir, res)
    return res


def run_arena_and_os(prop, tier, seed, workdir):
    res = run_arena(prop, tier, seed, workdir)
    if prop in OSENV_PROPS:
        osenv.run_props(prop, tier, seed, workdir, res)
    add_safety(prop, tier, seed, workdir, res)
    return res


ENGINES = {"C13": handlers.run, "C14": tok.run, "C09": printf.run_c09, "C11": printf.run_c11, "C12": threads.run, "C20": alloc.run, "C16": sort.run, "C17": norm.run, "C15": mbs.run, "C19": ts.run, "C18": erase.run}
def run_c07(prop, tier, seed, workdir):
    """C07: the algorithm layer (Bumper.tla: the two bumper loops step by step, refinement of the contract layer for every
    placement) is model-checked first; then the contract layer is bound to the code as for the other arena properties."""
    n, k = (7, 3) if tier == "quick" else (9, 4)
    st = tr = 0
    for alg, order, must_hold in (("strcpy_s", "code", True), ("strncpy_s", "code", True), ("strncpy_s", "swapped", False)):
        cfg = os.path.join(workdir, "bumper_%s_%s.cfg" % (alg, order))
        tlc.write_cfg(cfg, constants=dict(N=n, K=k, Alg=alg, Order=order), invariants=["Refines", "AccessOK"])
        r = tlc.model_check("Bumper", cfg, workdir, workers=16)
        if must_hold and (r["violated"] or not r["ok"]):
            raise tlc.TLCError("Bumper.tla (%s): the specified algorithm does not refine the contract: %s\n%s" % (alg, r["violated"], r["out"][-1500:]))
        if not must_hold and not r["violated"]:
            raise tlc.TLCError("self-test: Bumper.tla does not reject the swapped test order")
        if must_hold:
            st += r["distinct"]
            tr += r["states"]
    res = run_arena(prop, tier, seed, workdir)
    add_safety(prop, tier, seed, workdir, res)
    res.coverage["states"] += st
    res.coverage["transitions"] += tr
    res.coverage["algorithm_layer_states"] = st
    res.coverage["rule"] += ("; algorithm layer: Bumper.tla runs the two overlap-bumper loops of strcpy_s / strncpy_s step by step on every placement (arena %d, sizes <= %d) "
                             "and TLC checks that the result refines the contract (Refines) and touches only what is declared (AccessOK); the variant with the count tested "
                             "before the bumper in the dest < src loop is shown to violate Refines" % (n, k))
    return res


def run_c06(prop, tier, seed, workdir):
    """C06: the algorithm layer of mem_prim_move (MemMove.tla: direction choice, alignment head, word copies, tail) is
    model-checked first; then the contract layer is bound to the code as for the other arena properties."""
    n, ml = (16, 10) if tier == "quick" else (24, 18)
    st = tr = 0
    for choice, must_hold in (("code", True), ("fencepost", False)):
        cfg = os.path.join(workdir, "memmove_%s.cfg" % choice)
        tlc.write_cfg(cfg, constants=dict(N=n, W=4, MaxLen=ml, Choice=choice), invariants=["MoveCorrect", "NoEmptyDoLoop", "InBounds"])
        r = tlc.model_check("MemMove", cfg, workdir, workers=16)
        if must_hold and (r["violated"] or not r["ok"]):
            raise tlc.TLCError("MemMove.tla: the specified algorithm violates %s\n%s" % (r["violated"], r["out"][-1500:]))
        if not must_hold and not r["violated"]:
            raise tlc.TLCError("self-test: MemMove.tla does not reject the fencepost direction choice")
        if must_hold:
            st, tr = r["distinct"], r["states"]
    res = run_arena_and_os(prop, tier, seed, workdir)
    res.coverage["states"] += st
    res.coverage["transitions"] += tr
    res.coverage["algorithm_layer_states"] = st
    res.coverage["rule"] += ("; algorithm layer: MemMove.tla runs mem_prim_move (direction by address order, alignment head loop, word copies, tail loop; word size 4) for every "
                             "placement in %d addresses and every length <= %d: MoveCorrect (memmove semantics), NoEmptyDoLoop, InBounds; the fencepost direction choice is shown to violate MoveCorrect" % (n, ml))
    return res


ENGINES["C07"] = run_c07
def run_c10(prop, tier, seed, workdir):
    res = run_arena(prop, tier, seed, workdir)
    testtrace.run_props(prop, tier, seed, workdir, res)      # the query calls of the repository's own tests
    return res


ENGINES["C10"] = run_c10
ENGINES["C02"] = run_arena_and_printf      # incl. the formatted-output family: string arguments without a terminator for %.Ns
ENGINES["C06"] = run_c06
def run_c01(prop, tier, seed, workdir):
    """C01: the algorithm layer of mem_prim_set (MemSet.tla: alignment head, unrolled word blocks, tail) is model-checked first"""
    n, ml = (40, 30) if tier == "quick" else (64, 50)
    st = tr = 0
    for hc, must_hold in (("code", True), ("fromLen", False)):
        cfg = os.path.join(workdir, "memset_%s.cfg" % hc)
        tlc.write_cfg(cfg, constants=dict(N=n, W=4, B=3, MaxLen=ml, HeadCount=hc), invariants=["SetCorrect", "WordsAligned", "Progress"])
        r = tlc.model_check("MemSet", cfg, workdir, workers=16)
        if must_hold and (r["violated"] or not r["ok"]):
            raise tlc.TLCError("MemSet.tla: the specified algorithm violates %s\n%s" % (r["violated"], r["out"][-1500:]))
        if not must_hold and not r["violated"]:
            raise tlc.TLCError("self-test: MemSet.tla does not reject the word count taken from the full length")
        if must_hold:
            st, tr = r["distinct"], r["states"]
    res = run_arena_and_printf(prop, tier, seed, workdir)
    res.coverage["states"] += st
    res.coverage["transitions"] += tr
    res.coverage["algorithm_layer_states"] = st
    res.coverage["rule"] += ("; algorithm layer: MemSet.tla runs mem_prim_set (byte loop to the word boundary, unrolled word blocks with the fall-through block, tail bytes; word size 4, "
                             "block 3) for every start alignment in %d addresses and every length <= %d: SetCorrect (exactly the addressed bytes), WordsAligned, Progress; the variant "
                             "that takes the word count from the full length before the head loop is shown to violate SetCorrect" % (n, ml))
    return res


for _p in ("C03", "C04", "C05", "C08"):
    ENGINES[_p] = run_arena_and_printf
ENGINES["C01"] = run_c01


def replay(prop, path, workdir):
    r = json.load(open(path))
    rp = r["replay"]
    res = Result("replay")
    if rp["kind"] == "arena":
        n, bad, meta = arena.execute_and_judge([rp["case"]], workdir, flavours=(rp["flavour"],), places=(rp["place"],), jvms=1)
        for b in bad:
            if prop in b["props"]:
                res.violations.append(dict(desc=_describe(b), cluster=_cluster(b), slug=_slug(b) + "-replay", dev=b["dev"],
                                           replay=dict(kind="arena", case=b["case"], flavour=b["flavour"], place=b["place"],
                                                       observed=b["event"], props=b["props"])))
        print("replayed 1 case: observed", json.dumps(bad[0]["event"] if bad else "conforming"))
    elif rp["kind"] == "printf":
        res = printf.replay(rp, workdir)
        res.violations = [v for v in res.violations if prop in v.get("props", [prop])]
        return res
    elif rp["kind"] == "testtrace-mbs":
        res = Result("testtrace-mbs-replay")
        ev = '{"slack":1,' + json.dumps(rp["event"])[1:]
        n, bad, st = tlc.validate("TraceMbs", os.path.join(tlc.SPEC, "TraceMbs.cfg"), [ev], workdir, jvms=1)
        for bd in bad:
            res.violations.append(dict(desc="recorded event rejected: " + bd["why"], cluster=bd["why"], slug="tt-mbs-replay", dev="", replay=rp))
        return res
    elif rp["kind"] == "testtrace":
        return testtrace.replay(rp, workdir, prop)
    elif rp["kind"] == "osenv":
        return osenv.replay(rp, workdir, prop)
    elif rp["kind"] == "erase":
        return erase.replay(rp, workdir)
    elif rp["kind"] == "ts":
        return ts.replay(rp, workdir)
    elif rp["kind"] in ("mbs", "norm", "tok") and (rp["kind"] != "tok" or prop in SAFETY_WHY):
        sub = mbs.replay(rp, workdir) if rp["kind"] == "mbs" else norm.replay(rp, workdir) if rp["kind"] == "norm" else tok.replay(rp, workdir)
        if prop in SAFETY_WHY:      # replayed for C01 / C02: only the memory-safety observation counts
            sub.violations = [v for v in sub.violations if _is_safety(prop, v["cluster"])]
        return sub
    elif rp["kind"] == "sort":
        return sort.replay(rp, workdir)
    elif rp["kind"] == "alloc":
        return alloc.replay(rp, workdir)
    elif rp["kind"] == "threads":
        return threads.replay(rp, workdir)
    elif rp["kind"] == "tok":
        return tok.replay(rp, workdir)
    elif rp["kind"] == "handlers":
        return handlers.replay(rp, workdir)
    else:
        raise RuntimeError("unknown replay kind " + str(rp["kind"]))
    res.coverage = {}
    return res
