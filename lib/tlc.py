"""Thin wrappers around TLC: bounded model checking with a state dump (case generation)
and trace validation of recorded executions (many JVMs in parallel)."""
import json
import os
import re
import shutil
import subprocess
import tempfile
import threading
import time
from concurrent.futures import ThreadPoolExecutor

VERIF = os.path.dirname(os.path.dirname(os.path.abspath(__file__)))
SPEC = os.path.join(VERIF, "spec")
JAR_CP = "/opt/veriftools/tla/tla2tools.jar:/opt/veriftools/tla/CommunityModules-deps.jar"


class TLCError(Exception):
    pass


def _java(heap):
    return ["java", "-XX:+UseParallelGC", "-XX:ParallelGCThreads=4", "-Xmx" + heap, "-cp", JAR_CP, "tlc2.TLC"]


def write_cfg(path, spec="Spec", constants=None, invariants=(), properties=(), constraints=(), extra=""):
    lines = ["SPECIFICATION " + spec]
    if constants:
        lines.append("CONSTANTS")
        for k, v in constants.items():
            lines.append("  %s = %s" % (k, tla_value(v)))
    for i in invariants:
        lines.append("INVARIANT " + i)
    for p in properties:
        lines.append("PROPERTY " + p)
    for c in constraints:
        lines.append("CONSTRAINT " + c)
    lines.append("CHECK_DEADLOCK FALSE")
    if extra:
        lines.append(extra)
    open(path, "w").write("\n".join(lines) + "\n")


def tla_value(v):
    if isinstance(v, bool):
        return "TRUE" if v else "FALSE"
    if isinstance(v, int):
        return str(v)
    if isinstance(v, str):
        return '"%s"' % v
    if isinstance(v, (set, frozenset, list, tuple)):
        return "{" + ", ".join(tla_value(x) for x in sorted(v, key=str)) + "}"
    raise ValueError(v)


_STATS = re.compile(r"(\d+) states generated, (\d+) distinct states found")


def model_check(module, cfg_path, workdir, workers=16, dump=False, heap="8g", timeout=3600, simulate=None, coverage=False):
    """Run TLC on spec/<module>.tla.  Returns dict(states, distinct, out, dump_path, ok, violated)."""
    meta = tempfile.mkdtemp(prefix="meta.", dir=workdir)
    cmd = _java(heap) + ["-noGenerateSpecTE", "-workers", str(workers), "-metadir", meta, "-config", cfg_path]
    dump_path = None
    if dump:
        dump_path = os.path.join(workdir, "dump.%d" % (time.time_ns() % 10**9))
        cmd += ["-dump", dump_path]
    if simulate:
        cmd += ["-simulate", simulate]
    if coverage:
        cmd += ["-coverage", "1"]
    cmd.append(os.path.join(SPEC, module + ".tla"))
    t0 = time.time()
    for attempt in range(3):
        try:
            p = subprocess.run(cmd, cwd=SPEC, stdout=subprocess.PIPE, stderr=subprocess.STDOUT, text=True, timeout=timeout)
        except subprocess.TimeoutExpired as ex:
            shutil.rmtree(meta, ignore_errors=True)
            raise TLCError("TLC timeout on %s" % module)
        if p.returncode not in (-9, 137) or attempt == 2:
            break
        # killed from outside (memory pressure while other checks run next to this one): not a result; once more after a pause
        shutil.rmtree(meta, ignore_errors=True)
        os.makedirs(meta, exist_ok=True)
        for f in (dump_path + ".dump",) if dump else ():
            if os.path.exists(f):
                os.unlink(f)
        time.sleep(30 * (attempt + 1))
    shutil.rmtree(meta, ignore_errors=True)
    out = p.stdout
    m = None
    for m in _STATS.finditer(out):
        pass
    res = dict(out=out, rc=p.returncode, wall=time.time() - t0, dump_path=(dump_path + ".dump") if dump else None,
               states=int(m.group(1)) if m else 0, distinct=int(m.group(2)) if m else 0)
    res["violated"] = re.findall(r"Invariant (\w+) is violated|Temporal properties were violated|property (\w+) was violated", out)
    res["ok"] = p.returncode == 0 and "No error has been found" in out or (simulate and p.returncode == 0)
    if p.returncode != 0 and not res["violated"]:
        raise TLCError("TLC failed on %s (rc=%d):\n%s" % (module, p.returncode, out[-3000:]))
    return res


_KV = re.compile(r'(\w+) \|->\s+(<<[^>]*>>|"[^"]*"|-?\d+|TRUE|FALSE)')


def _parse_block(block, var):
    i = block.find(var + " = [")
    if i < 0:
        return None
    rec = {}
    for k, v in _KV.findall(block[i:]):
        if v.startswith("<<"):
            inner = v[2:-2].strip()
            try:
                rec[k] = [int(x) for x in inner.split(",")] if inner else []
            except ValueError:
                pass
        elif v.startswith('"'):
            rec[k] = v[1:-1]
        elif v in ("TRUE", "FALSE"):
            rec[k] = v == "TRUE"
        else:
            rec[k] = int(v)
    return rec


def iter_dump(path, var="st", must_contain=None):
    """Stream a TLC -dump file whose states are one flat record variable (one dict per state).  must_contain: a substring a
    state block has to contain to be parsed at all (cheap pre-filter for very large dumps)."""
    buf = []
    with open(path) as f:
        for ln in f:
            if ln.startswith("State ") and buf:
                block = "".join(buf)
                buf = []
                if must_contain is None or must_contain in block:
                    rec = _parse_block(block, var)
                    if rec is not None:
                        yield rec
            buf.append(ln)
    if buf:
        block = "".join(buf)
        if must_contain is None or must_contain in block:
            rec = _parse_block(block, var)
            if rec is not None:
                yield rec


def parse_dump(path, var="st"):
    """Parse a TLC -dump file whose states are one flat record variable."""
    return list(iter_dump(path, var))


_RES = re.compile(r'^<<"RESULT", (".*")>>$', re.M)


# at most this many trace-validation JVMs of one check at a time (several families / engines of one check validate concurrently)
_JVM_SLOTS = threading.BoundedSemaphore(16)


def _validate_chunk(args):
    with _JVM_SLOTS:
        return _validate_chunk_locked(args)


def _validate_chunk_locked(args):
    module, cfg, trace_path, workdir, heap, timeout = args
    meta = tempfile.mkdtemp(prefix="vmeta.", dir=workdir)
    env = dict(os.environ)
    env["TRACE"] = trace_path
    cmd = _java(heap) + ["-noGenerateSpecTE", "-workers", "1", "-metadir", meta, "-config", cfg, os.path.join(SPEC, module + ".tla")]
    for attempt in range(3):
        try:
            p = subprocess.run(cmd, cwd=SPEC, env=env, stdout=subprocess.PIPE, stderr=subprocess.STDOUT, text=True, timeout=timeout)
        except subprocess.TimeoutExpired:
            shutil.rmtree(meta, ignore_errors=True)
            raise TLCError("trace validation timeout (%s)" % trace_path)
        if p.returncode not in (-9, 137) or attempt == 2:
            break
        shutil.rmtree(meta, ignore_errors=True)       # killed from outside (memory pressure): once more after a pause
        os.makedirs(meta, exist_ok=True)
        time.sleep(30 * (attempt + 1))
    shutil.rmtree(meta, ignore_errors=True)
    m = _RES.search(p.stdout)
    if not m:
        raise TLCError("trace validation produced no result (%s):\n%s" % (trace_path, p.stdout[-3000:]))
    res = json.loads(json.loads(m.group(1)))
    sm = None
    for sm in _STATS.finditer(p.stdout):
        pass
    res["_states"] = int(sm.group(2)) if sm else 0
    return res


def validate(module, cfg, event_lines, workdir, jvms=16, heap="2g", timeout=1800, min_chunk=200):
    """Split event lines over several TLC JVMs; return (n_events, bad list, states)."""
    if not event_lines:
        return 0, [], 0
    n = len(event_lines)
    k = max(1, min(jvms, n // min_chunk or 1))
    size = (n + k - 1) // k
    jobs = []
    for i in range(k):
        chunk = event_lines[i * size:(i + 1) * size]
        if not chunk:
            continue
        path = os.path.join(workdir, "trace.%s.%d.%d.ndjson" % (module, time.time_ns() % 10**9, i))
        with open(path, "w") as f:
            f.write("\n".join(chunk) + "\n")
        jobs.append((module, cfg, path, workdir, heap, timeout))
    bad, total, states = [], 0, 0
    with ThreadPoolExecutor(max_workers=k) as ex:
        for r in ex.map(_validate_chunk, jobs):
            total += r["n"]
            bad += r["bad"]
            states += r["_states"]
    for j in jobs:
        try:
            os.unlink(j[2])
        except OSError:
            pass
    if total != n:
        raise TLCError("trace validation judged %d of %d events" % (total, n))
    return total, bad, states
