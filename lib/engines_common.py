"""shared result type"""


class Result:
    def __init__(self, engine, level="model_checking"):
        self.engine = engine
        self.level = level
        self.violations = []     # dicts: desc, cluster, slug, dev, replay
        self.coverage = {}
        self.assumptions = []


