"""P1/P2 pipeline for the single-arena families:
   TLC (GenArena) enumerates the calls of the bounded model and checks the contract-level
   properties -> hx executes every call against the library built from /repo (both slack
   builds, both placements) -> TLC (TraceArena) judges every recorded event."""
import json
import os
import random
import subprocess
import time
from concurrent.futures import ThreadPoolExecutor

from . import build, tlc

FIELDS = ["fn", "w", "d", "dmax", "s", "slen", "c", "n", "dbos", "sbos", "flags"]


def case_line(cid, c, place):
    pre = c["pre"]
    return "%d %s %d %d %d %d %d %d %d %d %d %d %d %d %s" % (
        cid, c["fn"], c["w"], c["d"], c["dmax"], c["s"], c["slen"], c["c"], c["n"], c["dbos"], c["sbos"], c["flags"],
        place, len(pre), " ".join(map(str, pre)))


def run_hx(exe, lines, timeout=600):
    """Execute case lines; survive crashes of the executor by attributing the crash to the
    case in progress and resuming behind it.  Returns raw JSON event lines."""
    events = []
    pos = 0
    ids = [int(l.split(" ", 1)[0]) for l in lines]
    restarts = 0
    while pos < len(lines):
        data = "\n".join(lines[pos:]) + "\n"
        p = subprocess.run([exe], input=data, stdout=subprocess.PIPE, stderr=subprocess.PIPE, text=True, timeout=timeout)
        got = 0
        last_marker = None
        for ln in p.stdout.splitlines():
            if ln.startswith("#"):
                last_marker = int(ln[1:])
            elif ln.startswith("{"):
                events.append(ln)
                got += 1
                last_marker = None
        pos += got
        if pos < len(lines):
            # executor died in the case at `pos`
            restarts += 1
            if restarts > 200:
                raise RuntimeError("executor keeps crashing: " + p.stderr[-500:])
            toks = lines[pos].split()
            na = int(toks[13])
            pre = toks[14:14 + na]
            ev = dict(id=ids[pos], fn=toks[1], w=int(toks[2]), d=int(toks[3]), dmax=int(toks[4]), s=int(toks[5]), slen=int(toks[6]),
                      c=int(toks[7]), n=int(toks[8]), dbos=int(toks[9]), sbos=int(toks[10]), flags=int(toks[11]), place=int(toks[12]),
                      pre=[int(x) for x in pre], post=[int(x) for x in pre], rc=-9999, h=[], hn=0, hk="", ret=-1, o1=-1,
                      fault="abort", foff=0, fnoz=False, frame_ok=True, frame_off=0)
            events.append(json.dumps(ev, separators=(",", ":")))
            pos += 1
    return events


def run_hx_parallel(exe, lines, jobs=16):
    if not lines:
        return []
    k = max(1, min(jobs, len(lines) // 500 or 1))
    size = (len(lines) + k - 1) // k
    chunks = [lines[i * size:(i + 1) * size] for i in range(k)]
    with ThreadPoolExecutor(max_workers=k) as ex:
        res = list(ex.map(lambda ch: run_hx(exe, ch), chunks))
    return [e for r in res for e in r]


def gen_cases(cfgname, constants, workdir, workers=16):
    """Model-check GenArena for one family scope and return (cases, stats)."""
    cfg = os.path.join(workdir, cfgname + ".cfg")
    tlc.write_cfg(cfg, constants=constants, invariants=["NonEmpty", "PropsHold"])
    r = tlc.model_check("GenArena", cfg, workdir, workers=workers, dump=True)
    if r["violated"] or not r["ok"]:
        raise tlc.TLCError("contract-level property check failed for %s: %s\n%s" % (cfgname, r["violated"], r["out"][-3000:]))
    cases = [c for c in tlc.parse_dump(r["dump_path"]) if c.get("fn") != "init"]
    os.unlink(r["dump_path"])
    return cases, dict(states=r["states"], distinct=r["distinct"], wall=r["wall"])


def execute_and_judge(cases, workdir, flavours=("slack", "noslack"), places=(0, 1), jvms=16):
    """cases: list of dicts.  Returns (events_total, bad, meta) where bad is a list of
    dict(case, event, props, dev, flavour, place)."""
    b = build.ensure(flavours, [("hx", f) for f in flavours])
    all_lines = []
    index = {}
    stride = len(flavours) * len(places)
    for fi, fl in enumerate(flavours):
        lines = []
        for pi, pl in enumerate(places):
            for ci, c in enumerate(cases):
                eid = ci * stride + fi * len(places) + pi
                lines.append(case_line(eid, c, pl))
        evs = run_hx_parallel(b[("hx", fl)], lines)
        slack = 0 if fl == "noslack" else 1
        for e in evs:
            all_lines.append('{"slack":%d,' % slack + e[1:])
    cfg = os.path.join(tlc.SPEC, "TraceArena.cfg")
    n, bad, states = tlc.validate("TraceArena", cfg, all_lines, workdir, jvms=jvms)
    by_id = None
    out = []
    if bad:
        by_id = {}
        for ln in all_lines:
            # cheap id extraction: "id":<n>,
            i = ln.find('"id":')
            j = ln.find(",", i)
            by_id[int(ln[i + 5:j])] = ln
        for bd in bad:
            eid = bd["i"]
            ci = eid // stride
            fi = (eid % stride) // len(places)
            pi = eid % len(places)
            out.append(dict(case=cases[ci], event=json.loads(by_id[eid]), props=sorted(bd["props"]), dev=bd["dev"],
                            flavour=flavours[fi], place=places[pi]))
    return n, out, dict(trace_states=states)
