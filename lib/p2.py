"""P2 drivers: calls beyond the TLC scope (sizes across the 0x20 byte-loop/memset switch, the
word-unrolled copy primitives, long strings), generated here with a seed, executed by hx and
judged by the same TLA+ contract through TraceArena (TLC is the only judge)."""
import random


def G(i):
    return 200 + (i % 50)       # garbage: never NUL, never a letter of the test strings


def blank(n):
    return [G(i + 1) for i in range(n)]


def put(a, p, seq, term):
    for j, v in enumerate(seq):
        a[p - 1 + j] = v
    if term:
        a[p - 1 + len(seq)] = 0


def case(fn, w, d, dmax, s, slen, pre, c=0, n=0):
    return dict(fn=fn, w=w, d=d, dmax=dmax, s=s, slen=slen, c=c, n=n, dbos=-1, sbos=-1, flags=0, pre=pre, slack=1)


def letters(k, base=97):
    return [base + (j % 23) for j in range(k)]


DM = [1, 2, 3, 8, 31, 32, 33, 34, 35, 36, 40, 47, 48, 49, 64, 65, 72, 80]

COPY = [("strcpy_s", 1, 0), ("strncpy_s", 1, 1), ("stpcpy_s", 1, 0), ("stpncpy_s", 1, 1), ("wcscpy_s", 4, 0), ("wcsncpy_s", 4, 1)]
CAT = [("strcat_s", 1, 0), ("strncat_s", 1, 1), ("wcscat_s", 4, 0), ("wcsncat_s", 4, 1)]
MEMC = [("memcpy_s", 1), ("memmove_s", 1), ("memcpy16_s", 2), ("memmove16_s", 2), ("memcpy32_s", 4), ("memmove32_s", 4), ("wmemcpy_s", 4), ("wmemmove_s", 4)]
FILL = [("memset_s", 1), ("memset16_s", 2), ("memset32_s", 4), ("memzero_s", 1), ("memzero16_s", 2), ("memzero32_s", 4)]


def copy_cases(rnd, per_fn):
    out = []
    for fn, w, hasn in COPY:
        for _ in range(per_fn):
            dmax = rnd.choice(DM)
            ln = rnd.choice([0, 1, 2, max(0, dmax - 34), max(0, dmax - 33), max(0, dmax - 2), max(0, dmax - 1), dmax, dmax + 1, rnd.randint(0, dmax + 2)])
            slen = rnd.choice([1, 2, max(1, ln - 1), ln, ln + 1, max(1, dmax - 34), max(1, dmax - 33), dmax - 1 if dmax > 1 else 1, dmax, dmax + 3]) if hasn else 0
            gap = rnd.choice([0, 0, 1, 2, 5])
            before = rnd.random() < 0.5
            term = rnd.random() < 0.9
            srcext = ln + 1
            if before:   # src below dest
                s = 1 + rnd.choice([0, 1, 3])
                d = s + srcext + gap
            else:
                d = 1 + rnd.choice([0, 1, 3])
                s = d + dmax + gap
            n = max(d + dmax, s + srcext) + 2
            a = blank(n)
            put(a, s, letters(ln), term)
            if not term and not hasn:
                # an unterminated source must still provide dmax readable elements
                need = s + dmax
                if need > n:
                    a += blank(need - n + 1)
            if not term and hasn and slen > ln:
                put(a, s, letters(ln), True)
            out.append(case(fn, w, d, dmax, s, slen, a))
    return out


def cat_cases(rnd, per_fn):
    out = []
    for fn, w, hasn in CAT:
        for _ in range(per_fn):
            dmax = rnd.choice(DM)
            dl = rnd.choice([0, 1, 2, max(0, dmax - 35), max(0, dmax - 2), max(0, dmax - 1)])
            room = dmax - dl
            ln = rnd.choice([0, 1, max(0, room - 34), max(0, room - 2), max(0, room - 1), room, rnd.randint(0, max(1, room))])
            slen = rnd.choice([1, max(1, ln - 1), ln if ln else 1, ln + 1, max(1, room - 1), room if room else 1]) if hasn else 0
            if hasn and rnd.random() < 0.3:
                # the count runs out before the source does, with a lot of slack left behind the result
                dmax = rnd.choice([48, 64, 72, 80])
                dl = rnd.choice([0, 1, 3])
                ln = rnd.choice([3, 8, 11])
                slen = rnd.randint(1, ln)
            gap = rnd.choice([0, 1, 4])
            if rnd.random() < 0.5:       # source behind dest
                d = 1 + rnd.choice([0, 2])
                s = d + dmax + gap
            else:                        # source in front of dest (the other copy loop of the bumper functions)
                s = 1 + rnd.choice([0, 2])
                d = s + ln + 1 + gap
            n = max(s + ln + 1, d + dmax) + 2
            a = blank(n)
            put(a, s, letters(ln), True)
            put(a, d, letters(dl, 65), dl < dmax)
            out.append(case(fn, w, d, dmax, s, slen, a))
    return out


def fld_cases(rnd, per_fn):
    out = []
    for fn in ("strcpyfld_s", "strcpyfldin_s", "strcpyfldout_s"):
        for _ in range(per_fn):
            dmax = rnd.choice(DM)
            slen = rnd.choice([1, 2, max(1, dmax - 34), max(1, dmax - 33), max(1, dmax - 2), max(1, dmax - 1), dmax, rnd.randint(1, dmax)])
            ln = rnd.choice([0, 1, max(0, slen - 1), slen, slen + 2])        # characters in front of the first NUL of the source
            gap = rnd.choice([0, 0, 1, 2, 5])
            if rnd.random() < 0.5:
                s = 1 + rnd.choice([0, 1, 3])
                d = s + max(slen, ln + 1) + gap
            else:
                d = 1 + rnd.choice([0, 1, 3])
                s = d + dmax + gap
            n = max(d + dmax, s + max(slen, ln + 1)) + 2
            a = blank(n)
            put(a, s, letters(ln), True)
            out.append(case(fn, 1, d, dmax, s, slen, a))
    return out


def find_cases(rnd, n):
    """search functions on longer operands over a two-letter alphabet (self-overlapping needles: partial matches that fail)"""
    out = []
    for fn, w in (("strstr_s", 1), ("strcasestr_s", 1), ("wcsstr_s", 4), ("strpbrk_s", 1), ("strspn_s", 1), ("strcspn_s", 1)):
        for _ in range(n):
            hl = rnd.randint(0, 9)
            nl = rnd.randint(1, 4)
            alpha = [97, 98] if rnd.random() < 0.8 else [97, 65, 98]
            hay = [rnd.choice(alpha) for _ in range(hl)]
            if rnd.random() < 0.5 and hl >= nl:
                k = rnd.randint(0, hl - nl)
                needle = hay[k:k + nl]                      # occurs: maybe behind a failed partial match
            else:
                needle = [rnd.choice(alpha) for _ in range(nl)]
            dmax = rnd.choice([hl + 1, hl + 1, hl + 3, max(1, hl), max(1, hl - 2)])
            slen = rnd.choice([nl + 1, nl + 1, nl + 2, nl, max(1, nl - 1)])
            d = 2
            a = blank(d - 1) + hay + [0]
            while len(a) < d - 1 + dmax:
                a.append(G(len(a)))
            a += blank(2)
            s = len(a) + 1
            a += needle + [0] + blank(max(0, slen - nl - 1) + 1)
            c = case(fn, w, d, dmax, s, slen, a)
            out.append(c)
    return out


def cmp_cases(rnd, n):
    """comparison functions on operands longer than the TLC arena: a late difference, case pairs, a missing terminator with the operand
    flush against the end of the arena (reading one element more faults)"""
    out = []
    for fn, w, hass in (("strcmp_s", 1, 0), ("strcasecmp_s", 1, 0), ("wcscmp_s", 4, 1), ("wcsncmp_s", 4, 1), ("wcsicmp_s", 4, 1), ("wcscoll_s", 4, 1)):
        for _ in range(n):
            L = rnd.randint(3, 12)
            base = [rnd.choice([97, 65, 98, 66]) for _ in range(L)]
            other = list(base)
            if rnd.random() < 0.5:
                for j in range(L):
                    if rnd.random() < 0.3:
                        other[j] ^= 32                      # the other case
            r = rnd.random()
            if r < 0.35:
                other[rnd.randrange(max(0, L - 3), L)] = rnd.choice([99, 67, 96, 95])    # a difference near the end (incl. characters between the two cases)
            elif r < 0.5:
                other = other[:rnd.randint(1, L)]
            elif r < 0.6:
                other = other + [rnd.choice([97, 65])]
            dterm = rnd.random() < 0.6
            sterm = rnd.random() < 0.7 or not hass
            dlast = rnd.random() < 0.5                      # which operand ends at the end of the arena
            dmax = (len(base) + rnd.choice([1, 1, 3])) if dterm else rnd.choice([len(base), len(base), max(1, len(base) - 2)])
            if hass:
                slen = (len(other) + rnd.choice([1, 1, 2])) if sterm else rnd.choice([len(other), max(1, len(other) - 1)])
            else:
                slen = 0
            dcells = max(dmax, len(base) + (1 if dterm else 0))
            # without a length of its own the source is read up to its terminator or for dmax elements
            scells = max(slen, len(other) + (1 if sterm else 0)) if hass else max(len(other) + 1, 0)
            first, second = (("s", scells), ("d", dcells)) if dlast else (("d", dcells), ("s", scells))
            a = blank(1)
            pos = {}
            for name, cells in (first, second):
                pos[name] = len(a) + 1
                seq, term = (base, dterm) if name == "d" else (other, sterm)
                blk = list(seq) + ([0] if term else [])
                while len(blk) < cells:
                    blk.append(G(len(a) + len(blk)))
                a += blk
                if name == first[0]:
                    a += blank(2)
            cnt = rnd.choice([1, max(1, L - 1), L, L + 2]) if fn == "wcsncmp_s" else 0
            out.append(case(fn, w, pos["d"], dmax, pos["s"], slen, a, n=cnt))
    return out


def nat_cases(rnd, n):
    """natural-order comparison beyond the TLC arena: digit runs of different length, leading zeros, white space inside and in front,
    and a dest without a terminator that consists of white space or digits up to the end of the arena"""
    out = []
    fixed = [("file10", "file9"), ("file9", "file10"), ("x 12", "x12"), ("1.010", "1.01"), ("007", "7"), ("a001b", "a01b"), ("a01", "a1"), ("  12", "12"),
             ("pic 5", "pic05"), ("1-2", "1-02"), ("abc", "ABC"), ("a10b2", "a10b10"), ("100", "99"), ("0.5", "0.49"), ("", " "), ("12 ", "12")]
    al = [97, 98, 65, 48, 49, 50, 57, 32, 46]
    for fn, w in (("strnatcmp_s", 1), ("strnatcasecmp_s", 1), ("wcsnatcmp_s", 4), ("wcsnaticmp_s", 4)):
        pairs = [(list(map(ord, a)), list(map(ord, b))) for a, b in fixed]
        for _ in range(n):
            L = rnd.randint(1, 10)
            a = [rnd.choice(al) for _ in range(L)]
            r = rnd.random()
            if r < 0.4:
                b = list(a)
                k = rnd.randrange(L)
                b[k] = rnd.choice(al)
            elif r < 0.6:
                b = a + [rnd.choice(al)]
            else:
                b = [rnd.choice(al) for _ in range(rnd.randint(1, 10))]
            pairs.append((a, b))
        for _ in range(n // 3):           # runs that a scan without a bound follows past dmax
            k = rnd.randint(1, 8)
            pairs.append(([rnd.choice([32, 32, 9]) for _ in range(k)], [32, 97]))
            pairs.append(([rnd.choice([49, 50, 57]) for _ in range(k)], [rnd.choice([49, 50, 57]) for _ in range(k + 2)]))
            pairs.append(([48] + [rnd.choice([48, 49]) for _ in range(k)], [48] + [rnd.choice([48, 49]) for _ in range(k + 2)]))
        for dstr, sstr in pairs:
            dterm = rnd.random() < 0.65
            dmax = (len(dstr) + rnd.choice([1, 1, 3])) if dterm else max(1, len(dstr))
            if not dterm and not dstr:
                dterm, dmax = True, 1
            dcells = max(dmax, len(dstr) + (1 if dterm else 0))
            # src first (terminated), dest last: its extent ends with the arena
            a = blank(1)
            spos = len(a) + 1
            a += list(sstr) + [0] + blank(2)
            dpos = len(a) + 1
            blk = list(dstr) + ([0] if dterm else [])
            while len(blk) < dcells:
                blk.append(G(len(a) + len(blk)))
            a += blk
            slen = 0
            if w == 4:      # the wide functions bound the source as well
                slen = len(sstr) + rnd.choice([1, 1, 2]) if rnd.random() < 0.85 else max(1, len(sstr))
                need = spos + slen - 1
                # the cells behind the source's terminator up to slen exist (the two blanks, then dest)
            out.append(case(fn, w, dpos, dmax, spos, slen, a))
    return out


def dlast_cases(rnd, n):
    """two-operand queries with dest as the LAST object of the arena (the TLC scope always puts the source there): dest fills its
    dmax elements up to the inaccessible page, with or without a terminator, and the scan is led up to that bound - a partial match
    cut off by dmax, a dest made of accepted characters only, operands equal up to the bound"""
    out = []
    fns = [("strstr_s", 1, 1), ("strcasestr_s", 1, 1), ("wcsstr_s", 4, 1), ("strpbrk_s", 1, 1), ("strspn_s", 1, 1), ("strcspn_s", 1, 1),
           ("strfirstdiff_s", 1, 0), ("strfirstsame_s", 1, 0), ("strlastdiff_s", 1, 0), ("strlastsame_s", 1, 0), ("strprefix_s", 1, 0)]
    for fn, w, hass in fns:
        for _ in range(n):
            hl = rnd.randint(1, 9)
            alpha = [97, 98] if rnd.random() < 0.7 else [97, 65, 98]
            hay = [rnd.choice(alpha) for _ in range(hl)]
            r = rnd.random()
            if fn in ("strstr_s", "strcasestr_s", "wcsstr_s"):
                k = rnd.randint(1, min(3, hl))
                if r < 0.5:
                    needle = hay[-k:] + [rnd.choice(alpha)]                  # the tail of dest is a proper prefix of the needle
                    if fn == "strcasestr_s":
                        needle = [c ^ 32 if rnd.random() < 0.5 else c for c in needle]
                elif r < 0.75:
                    j = rnd.randint(0, hl - k)
                    needle = hay[j:j + k]
                else:
                    needle = [rnd.choice(alpha) for _ in range(rnd.randint(1, 4))]
            elif fn in ("strpbrk_s", "strcspn_s"):
                needle = [99, 100] if r < 0.6 else [rnd.choice(alpha), 99]  # nothing of it in dest: the scan reaches the bound
            elif fn == "strspn_s":
                needle = sorted(set(hay)) if r < 0.6 else [hay[0]]          # all of dest accepted
            elif fn == "strprefix_s":
                needle = hay + [rnd.choice(alpha)] if r < 0.4 else hay[:rnd.randint(1, hl)] if r < 0.8 else [rnd.choice(alpha) for _ in range(rnd.randint(1, hl + 1))]
            else:   # index functions: equal up to the bound, or different / equal only at the last element
                needle = list(hay)
                if r < 0.3:
                    needle[-1] = 99
                elif r < 0.5:
                    needle = [99] * (hl - 1) + [hay[-1]]
                elif r < 0.7:
                    needle = needle + [rnd.choice(alpha)]
            dterm = rnd.random() < 0.4
            dmax = hl + 1 if dterm else hl
            slen = (len(needle) + rnd.choice([1, 1, 2])) if hass else 0
            a = blank(1)
            spos = len(a) + 1
            a += list(needle) + [0] + blank(3)
            dpos = len(a) + 1
            a += list(hay) + ([0] if dterm else [])
            out.append(case(fn, w, dpos, dmax, spos, slen, a))
    return out


def srcstale_cases(rnd, n):
    """two-operand queries whose SOURCE buffer holds stale characters behind its terminator, inside slen (a buffer that held a longer
    string before): the characters are ones the query looks for in dest, so a scan of the source that is bounded by slen only (memchr
    over slen, a compare that runs on behind the terminator) changes the answer.  dest likewise has stale letters inside dmax."""
    out = []
    fns = [("strstr_s", 1), ("strcasestr_s", 1), ("wcsstr_s", 4), ("strpbrk_s", 1), ("strspn_s", 1), ("strcspn_s", 1),
           ("wcscmp_s", 4), ("wcsncmp_s", 4), ("wcsicmp_s", 4), ("wcsnatcmp_s", 4), ("wcsnaticmp_s", 4)]
    for fn, w in fns:
        for _ in range(n):
            hl = rnd.randint(1, 8)
            alpha = [97, 98, 99] if rnd.random() < 0.7 else [97, 65, 98, 49]
            hay = [rnd.choice(alpha) for _ in range(hl)]
            if fn in ("wcscmp_s", "wcsncmp_s", "wcsicmp_s", "wcsnatcmp_s", "wcsnaticmp_s"):
                needle = list(hay) if rnd.random() < 0.7 else hay[:rnd.randint(0, hl)]          # equal up to the terminator(s)
            else:
                nl = rnd.randint(0 if fn in ("strspn_s", "strcspn_s", "strpbrk_s") else 1, 3)
                pool = [c for c in alpha if c not in hay[:max(1, hl // 2)]] or alpha          # (often) not in the front part of dest
                needle = [rnd.choice(pool) for _ in range(nl)]
            nl = len(needle)
            extra = rnd.randint(1, 3)
            slen = nl + 1 + extra
            stale = [rnd.choice(hay) for _ in range(extra)]                                     # what dest holds, behind the source's terminator
            dextra = rnd.choice([0, 0, 2])
            dmax = hl + 1 + dextra
            d = 2
            a = blank(d - 1) + hay + [0] + [rnd.choice(alpha) for _ in range(dextra)]
            a += blank(2)
            s = len(a) + 1
            a += needle + [0] + stale + blank(1)
            out.append(case(fn, w, d, dmax, s, slen, a, n=(rnd.choice([1, hl, hl + 3]) if fn == "wcsncmp_s" else 0)))
    return out


def srclast_cases(rnd, n):
    """two-operand queries with a dest of one to five machine words and a short terminated SOURCE as the last object of the arena (its
    terminator is the last accessible element): a word-at-a-time path that is bounded by dmax only loads a whole word from the source
    and reads behind its terminator.  The source is a prefix of dest (so a compare keeps going), or differs in its last character."""
    out = []
    fns = [("strprefix_s", 1, 0), ("strcmp_s", 1, 0), ("strcasecmp_s", 1, 0), ("strnatcmp_s", 1, 0), ("strnatcasecmp_s", 1, 0), ("strcmpfld_s", 1, 0),
           ("strfirstdiff_s", 1, 0), ("strfirstsame_s", 1, 0), ("strlastdiff_s", 1, 0), ("strlastsame_s", 1, 0),
           ("strstr_s", 1, 1), ("strcasestr_s", 1, 1), ("strpbrk_s", 1, 1), ("strspn_s", 1, 1), ("strcspn_s", 1, 1),
           ("wcsstr_s", 4, 1), ("wcscmp_s", 4, 1), ("wcsncmp_s", 4, 1), ("wcsicmp_s", 4, 1), ("wcsnatcmp_s", 4, 1), ("wcsnaticmp_s", 4, 1)]
    for fn, w, hass in fns:
        for _ in range(n):
            hl = rnd.choice([7, 8, 9, 15, 16, 17, 24, 31, 33, 40])
            alpha = [97, 98] if rnd.random() < 0.7 else [97, 65, 98]
            hay = [rnd.choice(alpha) for _ in range(hl)]
            k = rnd.choice([0, 1, 2, 3, 5, 6, 7, 8, 9, 11, 15, 17])
            k = min(k, hl)
            needle = hay[:k]
            r = rnd.random()
            if r < 0.25 and k:
                needle[-1] = 99
            elif r < 0.4 and k:
                needle = hay[hl - k:]
            dterm = rnd.random() < 0.8
            dmax = hl + (1 + rnd.choice([0, 0, 3]) if dterm else 0)
            if fn == "strcmpfld_s":       # compares dmax characters of both: the source has them
                dmax = max(1, k)
                dterm = True
            slen = (len(needle) + rnd.choice([1, 1, 4, 9])) if hass else 0
            d = 2
            a = blank(d - 1) + hay + ([0] if dterm else [])
            while len(a) < d - 1 + dmax:
                a.append(G(len(a)))
            a += blank(2)
            spos = len(a) + 1
            a += list(needle) + [0]
            out.append(case(fn, w, d, dmax, spos, slen, a, n=(rnd.choice([1, hl, hl + 3]) if fn == "wcsncmp_s" else 0)))
    return out


def password_cases(rnd, n):
    """strispassword_s needs strings of 6..31 characters: beyond the TLC arena, seeded here"""
    out = []
    lower, upper, digit, special = list(range(97, 123)), list(range(65, 91)), list(range(48, 58)), [33, 47, 58, 64, 91, 94, 95, 96, 123, 126]
    illegal = [32, 127, 200, 9]
    for _ in range(n):
        ln = rnd.choice([0, 1, 5, 6, 7, 12, 30, 31, 32, 33])
        kinds = rnd.choice([(2, 2, 1, 1), (1, 2, 1, 1), (2, 1, 1, 1), (2, 2, 0, 1), (2, 2, 1, 0), (3, 3, 2, 2), (0, 0, 0, 0)])
        s = [rnd.choice(lower) for _ in range(kinds[0])] + [rnd.choice(upper) for _ in range(kinds[1])] + [rnd.choice(digit) for _ in range(kinds[2])] + [rnd.choice(special) for _ in range(kinds[3])]
        while len(s) < ln:
            s.append(rnd.choice(lower + upper + digit + special))
        s = s[:ln]
        rnd.shuffle(s)
        if s and rnd.random() < 0.15:
            s[rnd.randrange(len(s))] = rnd.choice(illegal)
        term = rnd.random() < 0.85
        dmax = rnd.choice([1, 5, 6, 7, ln, ln + 1, ln + 2, 31, 32, 33, 40])
        dmax = max(1, dmax)
        # flush against the end of the arena: reading dest[dmax] faults
        ext = max(dmax, ln + (1 if term else 0)) if term else max(dmax, ln)
        if not term and ln < dmax:
            s = s + [rnd.choice(lower) for _ in range(dmax - ln)]       # no terminator inside dmax
            ln = dmax
            ext = dmax
        d = 2
        a = blank(d - 1) + s + ([0] if term else [])
        while len(a) < d - 1 + ext:
            a.append(G(len(a)))
        out.append(case("strispassword_s", 1, d, dmax, 0, 0, a))
    return out


def mem_cases(rnd, per_fn):
    out = []
    for fn, w in MEMC:
        for _ in range(per_fn):
            slen = rnd.choice([1, 2, 3, 7, 8, 9, 15, 16, 17, 31, 32, 33, 63, 64, 65, 100, 127, 128, 129, 150])
            dmax = slen + rnd.choice([0, 0, 1, 5])
            al_d = rnd.randint(0, 7)
            al_s = rnd.randint(0, 7)
            if "move" in fn and rnd.random() < 0.5:
                # overlapping placements for the memmove family
                d = 1 + al_d + 8
                off = rnd.choice([-slen, -slen + 1, -3, -1, 1, 2, slen - 1, slen])
                s = max(1, d + off)
            else:
                d = 1 + al_d
                s = d + dmax + al_s + 1
            n = max(d + dmax, s + slen) + 3
            a = [((i * 7) % 190) + 1 for i in range(n)]
            out.append(case(fn, w, d, dmax, s, slen, a))
    return out


def fill_cases(rnd, per_fn):
    out = []
    for fn, w in FILL:
        for _ in range(per_fn):
            cnt = rnd.choice([1, 2, 3, 7, 8, 9, 15, 16, 17, 31, 32, 33, 63, 64, 65, 100, 129])
            dmax = cnt + rnd.choice([0, 0, 2])
            d = 1 + rnd.randint(0, 7)
            n = d + dmax + 9
            a = [((i * 5) % 180) + 3 for i in range(n)]
            if "zero" in fn:
                out.append(case(fn, w, d, cnt, 0, 0, a))
            else:
                out.append(case(fn, w, d, dmax, 0, 0, a, c=rnd.choice([0, 65, 255, 128, 129, 165, 254, 1, 127]), n=cnt))      # high-bit values: a byte spread over a word by shifts of a promoted int sign-extends
    return out


def cases(family, seed, tier):
    import zlib
    rnd = random.Random(seed * 7919 + zlib.crc32(family.encode()) % 1000)     # (not hash(): that differs from process to process)
    k = 60 if tier == "quick" else 600
    if family == "strcopy":
        return copy_cases(rnd, k) + cat_cases(rnd, k)
    if family in ("query2", "query2_small"):
        return find_cases(rnd, k * 5) + cmp_cases(rnd, k * 5) + nat_cases(rnd, k * 5) + dlast_cases(rnd, k * 4) + srcstale_cases(rnd, k * 4) + srclast_cases(rnd, k * 4)
    if family == "query1":
        return password_cases(rnd, k * 10)
    if family == "strfld":
        return fld_cases(rnd, k)
    if family == "memcopy":
        return mem_cases(rnd, k)
    if family == "fill":
        return fill_cases(rnd, k * 3)
    return []
