"""C17 engine: Norm.tla checks the normalization laws on the UAX #15 definitions; hnorm runs wcsnorm_s (NFD/NFC) on
every code point with a non-trivial mapping, composing pairs, Hangul, seeded random starter+mark strings, out-of-range
values, each followed by a second normalization of the result (idempotence), and the fold functions on all code points;
TraceNorm.tla validates against the same definitions."""
import json
import os
import random
import subprocess
import unicodedata
from concurrent.futures import ThreadPoolExecutor

from . import build, tlc, ucdgen
from .engines_common import Result


def assigned(cp):
    return unicodedata.category(chr(cp)) not in ("Cn", "Cs", "Co")


def run(prop, tier, seed, workdir):
    res = Result("norm")
    rnd = random.Random(seed)
    ucdgen.ensure()
    cfg = os.path.join(workdir, "norm.cfg")
    tlc.write_cfg(cfg, constants=dict(MaxLen=3 if tier == "quick" else 4), invariants=["Idempotent", "Agree", "Lengths"])
    r = tlc.model_check("Norm", cfg, workdir, workers=16)
    if r["violated"] or not r["ok"]:
        raise tlc.TLCError("Norm.tla laws violated: %s\n%s" % (r["violated"], r["out"][-1500:]))
    strings = []
    mapped = [cp for cp in range(0x110000) if assigned(cp) and (unicodedata.decomposition(chr(cp)) and not unicodedata.decomposition(chr(cp)).startswith("<")
                                                               or unicodedata.combining(chr(cp)))]
    for cp in mapped:
        strings.append([cp])
    # composing pairs
    pairs = []
    for cp in mapped:
        d = unicodedata.decomposition(chr(cp))
        if d and not d.startswith("<"):
            p = [int(x, 16) for x in d.split()]
            if len(p) == 2:
                pairs.append(p)
    for p in (pairs if tier != "quick" else rnd.sample(pairs, 600)):
        strings.append(p)
        strings.append([p[0], 0x0323, p[1]])
    # aliases of composing pairs in the other planes: the (starter, mark) tables are indexed by plane / row / cell and their
    # lists hold 16-bit or 32-bit second characters, so a character that shares the low 16 bits (or the low 8 / the middle 8)
    # with the second or first character of a composing pair must not compose (U+0041 U+10300 is not U+00C0)
    def alias_ok(c):
        return 0 < c < 0x110000 and not 0xD800 <= c <= 0xDFFF and assigned(c)
    nalias = 0
    for p in pairs:
        cands = []
        for k in range(1, 17):
            cands.append([p[0], (p[1] + 0x10000 * k) % 0x110000])
            cands.append([(p[0] + 0x10000 * k) % 0x110000, p[1]])
        cands.append([p[0], p[1] ^ 0x100]); cands.append([p[0] ^ 0x100, p[1]])
        cands.append([p[0], p[1] ^ 0x1000]); cands.append([p[0] ^ 0x1000, p[1]])
        cands = [c for c in cands if alias_ok(c[0]) and alias_ok(c[1]) and c != p]
        if tier == "quick" and len(cands) > 2:
            cands = rnd.sample(cands, 2)
        for c in cands:
            strings.append(c)
            nalias += 1
    # Hangul
    for _ in range(200 if tier == "quick" else 3000):
        l, v, t = 0x1100 + rnd.randint(0, 18), 0x1161 + rnd.randint(0, 20), 0x11A7 + rnd.randint(0, 27)
        strings.append([l, v] + ([t] if t > 0x11A7 else []))
        strings.append([0xAC00 + rnd.randint(0, 11171)])
    # Hangul boundaries: the jamo just outside the L / V / T ranges (U+11A7 is TBase itself: assigned, but not a trailing consonant)
    for l in (0x10FF, 0x1100, 0x1112, 0x1113):
        for v in (0x1160, 0x1161, 0x1175, 0x1176):
            for tt in (0x11A6, 0x11A7, 0x11A8, 0x11C2, 0x11C3):
                strings.append([l, v, tt])
            strings.append([l, v])
    for syl in (0xAC00, 0xAC01, 0xAC1B, 0xAC1C, 0xD788, 0xD7A3, 0xABFF, 0xD7A4):
        for tt in (0x11A7, 0x11A8, 0x11C2, 0x11C3, 0x1161):
            strings.append([syl, tt])
    for _ in range(60 if tier == "quick" else 399):
        lv = 0xAC00 + 28 * rnd.randint(0, 398)
        strings.append([lv, 0x11A7])
        strings.append([lv, 0x11A8 + rnd.randint(0, 26)])
    marks = [cp for cp in mapped if unicodedata.combining(chr(cp))]
    starters = [0x41, 0x61, 0x45, 0x65, 0x4F, 0x6F, 0x55, 0x75, 0xC5, 0x212B, 0x1E0A, 0x3B1, 0x915, 0x1100, 0xAC00, 0x958]
    for _ in range(1500 if tier == "quick" else 40000):
        n = rnd.randint(1, 12)
        s = []
        while len(s) < n:
            s.append(rnd.choice(starters))
            for _ in range(rnd.randint(0, min(13, n - len(s)) if rnd.random() < 0.1 else min(3, n - len(s)))):
                s.append(rnd.choice(marks))
        strings.append(s[:n])
    # a seeded sample (quick) / all (thorough) of the remaining assigned code points
    allcps = [cp for cp in range(1, 0x110000) if assigned(cp)]      # U+0000 is the terminator of the interface
    for cp in (allcps if tier != "quick" else rnd.sample(allcps, 6000)):
        strings.append([cp])
    for bad in ([0x110000], [0x41, 0x7FFFFFFF], [0x200000, 0x301], [0xD800], [0x41, 0xDFFF]):
        strings.append(bad)
    lines = []
    meta = {}
    cid = 0
    # dmax sweeps: every dmax from 1 to ample for strings whose pieces need 2, 3 or 4 elements at once (Hangul LV / LVT,
    # multi-element expansions, marks to reorder), so that "exactly the room this piece needs" occurs at every position
    sweep = [[0xAC00], [0xAC01], [0xAC00, 0xAC01], [0xAC01, 0xAC00], [0xAC01, 0xAC01], [0x41, 0xAC00, 0xAC01], [0xAC00, 0xAC00, 0xAC01], [0xAC01, 0xAC01, 0xAC00, 0xAC01],
             [0x1F9C], [0x41, 0x1F9C], [0x1F9C, 0x1F9C], [0x1E0A, 0x323], [0x61, 0x301, 0x323], [0xC5, 0x212B], [0x958, 0x958], [0x1100, 0x1161, 0x11A8, 0xAC00]]
    for _ in range(30 if tier == "quick" else 300):
        sweep.append([rnd.choice([0xAC00 + rnd.randint(0, 11171), 0xAC00 + 28 * rnd.randint(0, 398), 0x41, 0x1F9C, 0xE9]) for _ in range(rnd.randint(1, 5))])
    for s in sweep:
        nfd_len = len(unicodedata.normalize("NFD", "".join(chr(c) for c in s)))
        for mode in (0, 1):
            for dmax in range(0, nfd_len + 7):          # dmax = 0: dest is the first element of the inaccessible page - nothing may be stored
                cid += 1
                meta[cid] = ("n", mode, dmax, s)
                lines.append("%d n %d %d %d %s" % (cid, mode, dmax, len(s), " ".join(map(str, s))))
    for s in strings:
        for mode in (0, 1):
            nfd_len = len(unicodedata.normalize("NFD", "".join(chr(c) for c in s if c < 0x110000 and not 0xD800 <= c <= 0xDFFF)))
            for dmax in ({max(5, nfd_len + 1), nfd_len + 8} if rnd.random() < 0.9 else {1, 4, max(1, nfd_len), nfd_len + 1, nfd_len + 2}):
                cid += 1
                meta[cid] = ("n", mode, dmax, s)
                lines.append("%d n %d %d %d %s" % (cid, mode, dmax, len(s), " ".join(map(str, s))))
    foldcps = allcps if tier != "quick" else sorted(set(rnd.sample(allcps, 20000) + [cp for cp in allcps if chr(cp).lower() != chr(cp) or cp < 0x600]))
    for cp in foldcps + [0x110000, 0x7FFFFFFF]:
        cid += 1
        meta[cid] = ("f", cp)
        lines.append("%d f %d" % (cid, cp))
    # wcsfc_s on strings: characters that fold to one, two, three and four elements (and decompose), every dmax from 1 to ample
    # (dest flush against the guard page: a stored element too many faults)
    foldchars = [0x41, 0x61, 0xDF, 0xFB03, 0x1F82, 0x390, 0x3A3, 0x130, 0xC5, 0x1E9E, 0x149, 0x1F0, 0x1FB7, 0x587, 0x10400, 0x4E00]
    fstrings = [[c] for c in foldchars] + [[c, c] for c in (0xDF, 0xFB03, 0x1F82)] + [[0xFB03] * 3, [0x41, 0xFB03], [0xFB03, 0x41], [0x1F82, 0xDF, 0x41]]
    for _ in range(60 if tier == "quick" else 1500):
        fstrings.append([rnd.choice(foldchars) for _ in range(rnd.randint(1, 6))])
    for fs in fstrings:
        for dmax in range(1, 4 * len(fs) + 8):
            cid += 1
            meta[cid] = ("w", 0, dmax, fs)
            lines.append("%d w %d %d %s" % (cid, dmax, len(fs), " ".join(map(str, fs))))
    # the stages of wcsnorm_s as entry points of their own: decompose (order of the source kept), reorder (len elements), compose
    # (of a canonically ordered decomposed string); every dmax from 1 to ample for the short ones - dest flush against the guard page
    def nfd(q):
        return [ord(ch) for ch in unicodedata.normalize("NFD", "".join(chr(c) for c in q))]
    stage = []
    base = [q for q in sweep if 894 not in q] + [[0x61, 0x301, 0x323], [0x61, 0x323, 0x301, 0x62, 0x301], [0x301, 0x323, 0x61], [0x41, 0x30A, 0x301], [0x45, 0x304, 0x300],
                                                   [0x9C7, 0x9BE], [0x1100, 0x1161, 0x11A8], [0xAC00, 0x11A8], [0x61] + [0x301, 0x323] * 6, [0x61] + [0x323, 0x301] * 9, [0x62, 0x61] + [0x315, 0x300, 0x5AE, 0x300] * 3]
    for _ in range(120 if tier == "quick" else 2500):
        n = rnd.randint(1, 9)
        q = []
        while len(q) < n:
            q.append(rnd.choice(starters))
            for _ in range(rnd.randint(0, min(4, n - len(q)))):
                q.append(rnd.choice(marks))
        base.append(q[:n])
    for q in rnd.sample(pairs, 150 if tier == "quick" else len(pairs)):
        base.append(q)
    for q in base:
        if 894 in q:
            continue
        dq = nfd(q)
        full = len(dq) <= 8 or rnd.random() < 0.2
        for op, src in (("d", q), ("r", q), ("r", [c for c in dq[::-1]] if len(dq) < 6 else dq), ("c", dq)):
            if op == "r":
                # reorder takes decomposed input; feed the unordered decomposition (marks in source order)
                src = [c for ch in q for c in nfd([ch])] if src is q else src
            top = (len(dq) if op != "c" else len(src)) + (7 if op == "d" else 3)
            for dmax in (range(0, top + 1) if full else sorted({0, 1, max(1, len(src) - 1), len(src), len(src) + 1, top})):
                stage.append((op, dmax, src))
    for op, dmax, src in stage:
        cid += 1
        meta[cid] = (op, 0, dmax, src)
        lines.append("%d %s %d %d %s" % (cid, op, dmax, len(src), " ".join(map(str, src))))
    b = build.ensure(["slack"], [("hnorm", "slack")])
    exe = b[("hnorm", "slack")]
    k = 16
    size = (len(lines) + k - 1) // k
    chunks = [lines[i * size:(i + 1) * size] for i in range(k) if lines[i * size:(i + 1) * size]]

    def runchunk(ch):
        out = []
        pos = 0
        while pos < len(ch):
            p = subprocess.run([exe], input="\n".join(ch[pos:]) + "\n", stdout=subprocess.PIPE, stderr=subprocess.PIPE, text=True, timeout=1200)
            got = [ln for ln in p.stdout.splitlines() if ln.startswith("{")]
            out += got
            pos += len(got)
            if pos < len(ch):
                t = ch[pos].split()
                if t[1] == "w":
                    out.append(json.dumps(dict(id=int(t[0]), op="w", dmax=int(t[2]), s=[int(x) for x in t[4:]], each=[1 for x in t[4:]], post=[], rc=-9999, len=0, h=[], hn=0, hk="",
                                               frame_ok=True, fault="abort")))
                elif t[1] in ("d", "r", "c"):
                    out.append(json.dumps(dict(id=int(t[0]), op=t[1], mode=0, dmax=int(t[2]), s=[int(x) for x in t[4:]], post=[], rc=-9999, len=0, h=[], hn=0, hk="",
                                               frame_ok=True, fault="abort")))
                elif t[1] == "n":
                    out.append(json.dumps(dict(id=int(t[0]), op="n", mode=int(t[2]), dmax=int(t[3]), s=[int(x) for x in t[5:]], post=[], rc=-9999, len=0, h=[], hn=0, hk="",
                                               frame_ok=True, fault="abort")))
                else:
                    out.append(json.dumps(dict(id=int(t[0]), op="f", cp=int(t[2]), ann=0, n=0, wrc=0, wn=0, fault="abort")))
                pos += 1
        return out
    with ThreadPoolExecutor(max_workers=k) as ex:
        outs = list(ex.map(runchunk, chunks))
    # idempotence: feed every successful result back in
    again = []
    for o in outs:
        for ln in o:
            if '"op":"n"' in ln and '"rc":0,' in ln and rnd.random() < (0.3 if tier == "quick" else 1.0):
                e = json.loads(ln)
                res_s = e["post"][:e["len"]]
                if res_s and all(0 < c < 0x110000 for c in res_s):
                    cid += 1
                    meta[cid] = ("n", e["mode"], len(res_s) + 6, res_s)
                    again.append("%d n %d %d %d %s" % (cid, e["mode"], len(res_s) + 6, len(res_s), " ".join(map(str, res_s))))
    outs.append(runchunk(again))
    events = ['{"slack":1,' + ln[1:] for o in outs for ln in o]
    from . import testtrace
    corp = testtrace.corpus("norm", workdir)          # the wcsnorm_s calls of the repository's own tests, same judge
    for ln in corp:
        e = json.loads(ln)
        e["id"] += 50000000
        meta[e["id"]] = ("n", e["mode"], e["dmax"], e["s"])
        events.append(json.dumps(e, separators=(",", ":")))
    n, bad, st = tlc.validate("TraceNorm", os.path.join(tlc.SPEC, "TraceNorm.cfg"), events, workdir, jvms=16, heap="3g")
    for bd in bad:
        m = meta[bd["i"]]
        if m[0] == "w":
            desc = "wcsfc_s(dmax=%d, %s): %s" % (m[2], " ".join("U+%04X" % c for c in m[3][:10]), bd["why"])
        elif m[0] in ("d", "r", "c"):
            desc = "%s(dmax=%d, %s): %s" % (dict(d="wcsnorm_decompose_s", r="wcsnorm_reorder_s", c="wcsnorm_compose_s")[m[0]], m[2], " ".join("U+%04X" % c for c in m[3][:14]), bd["why"])
        elif m[0] == "n":
            desc = "wcsnorm_s(%s, dmax=%d, %s): %s" % ("NFC" if m[1] else "NFD", m[2], " ".join("U+%04X" % c for c in m[3][:10]), bd["why"])
        else:
            desc = "fold U+%04X: %s" % (m[1], bd["why"])
        res.violations.append(dict(desc=desc, cluster="%s|%s" % (m[0], bd["why"]), slug="norm-%d" % bd["i"], dev=bd.get("dev", ""),
                                   replay=dict(kind="norm", line=lines[bd["i"] - 1] if bd["i"] <= len(lines) else None, meta=list(m), why=bd["why"])))
    res.coverage = dict(
        states=r["distinct"], transitions=r["states"], traces_validated_against_impl=n, evaluations=n,
        distinct_nontrivial=len({tuple(m[3]) for m in meta.values() if m[0] == "n"}),
        rule="Norm.tla: TLC checks idempotence, NFD(NFC(s)) = NFD(s), NFC(NFD(s)) = NFC(s) and the length bounds on the UAX #15 definitions for all strings "
             "of length <= %d over 15 critical code points; executions: every code point with a canonical mapping or a combining class singly, composing "
             "(starter, mark) pairs alone and with an interposed ccc-220 mark, aliases of the composing pairs in the other planes / rows (same low 16 bits, one bit of the row changed: must not compose), Hangul L/V/T and syllables, seeded random starter+marks strings of length <= 12 "
             "(incl. > 10 marks), a seeded sample (thorough: all) of the other assigned code points, out-of-range and surrogate values, NFD and NFC, dmax "
             "from the documented minimum / exact fit to ample, each successful result normalized again; fold: iswfc vs towfc_s vs wcsfc_s for %d code "
             "points; wcsfc_s on strings of characters folding to 1-4 elements for every dmax from 1 to ample (terminated, inside dmax, no longer than the characters alone, cleared and reported once on failure, success with the documented room). The stages wcsnorm_decompose_s / wcsnorm_reorder_s / wcsnorm_compose_s as entry points of their own (result = DecompStr / Reorder / ComposeRec of NormDefs.tla, stored with its terminator inside dmax or failing with one report and an emptied dest; every dmax from 1 to ample, mark runs of 12 and 18). TraceNorm.tla compares with NFD/NFC of NormDefs.tla (tables from python3 unicodedata 14.0). non-trivial = distinct input strings" % (
                 3 if tier == "quick" else 4, len(foldcps)),
        samples=[dict(op=meta[i][0], mode=meta[i][1], dmax=meta[i][2], s=meta[i][3]) for i in (1, 2001, 4001) if i in meta and meta[i][0] == "n"],
        exhaustive=False, checker_cmd="tlc Norm.tla (INVARIANTS Idempotent Agree Lengths); tlc TraceNorm.tla")
    res.assumptions = ["oracle tables: python3 unicodedata %s (the library carries Unicode 15; normalization stability makes 14 a sound oracle for code points assigned in 14)" % unicodedata.unidata_version,
                       "the fold check is the self-consistency the property states (announced vs emitted counts), not a comparison with CaseFolding.txt"]
    return res


def replay(rp, workdir):
    res = Result("norm-replay")
    b = build.ensure(["slack"], [("hnorm", "slack")])
    line = rp.get("line")
    if not line:        # an event recorded from the repository's tests: the same call, rebuilt from its description
        m = rp["meta"]
        line = ("1 %s %d %d %s" % (m[0], m[2], len(m[3]), " ".join(map(str, m[3])))) if m[0] in ("w", "d", "r", "c") else "1 n %d %d %d %s" % (m[1], m[2], len(m[3]), " ".join(map(str, m[3])))
    p = subprocess.run([b[("hnorm", "slack")]], input=line + "\n", stdout=subprocess.PIPE, text=True, timeout=60)
    evs = ['{"slack":1,' + ln[1:] for ln in p.stdout.splitlines() if ln.startswith("{")]
    print("\n".join(evs))
    n, bad, st = tlc.validate("TraceNorm", os.path.join(tlc.SPEC, "TraceNorm.cfg"), evs, workdir, jvms=1)
    for bd in bad:
        res.violations.append(dict(desc="replayed: %s" % bd["why"], cluster=bd["why"], slug="norm-replay", dev=bd.get("dev", ""), replay=rp))
    return res
