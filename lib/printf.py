"""Formatted I/O engine (C09, C11 and the formatted-output part of C01-C05/C08):
GenPrintf.tla enumerates formats/arguments -> hpf executes them through every entry point
-> TracePrintf.tla judges every recorded call."""
import json
import os
import random
import re
import subprocess
from concurrent.futures import ThreadPoolExecutor

from . import build, tlc
from .engines_common import Result

NARROW_BUF = ["sprintf_s", "vsprintf_s", "snprintf_s", "vsnprintf_s"]
NARROW_STREAM = ["printf_s", "vprintf_s", "fprintf_s", "vfprintf_s"]
WIDE_BUF = ["swprintf_s", "vswprintf_s", "snwprintf_s", "vsnwprintf_s"]
WIDE_STREAM = ["wprintf_s", "vwprintf_s", "fwprintf_s", "vfwprintf_s"]
SCAN_NARROW = ["sscanf_s", "vsscanf_s", "fscanf_s", "vfscanf_s", "scanf_s", "vscanf_s"]
SCAN_WIDE = ["swscanf_s", "vswscanf_s", "fwscanf_s", "vfwscanf_s", "wscanf_s", "vwscanf_s"]

_tabs = None


def tabs():
    """value tables shared with the TLA+ model (parsed from spec/PrintfTabs.tla)"""
    global _tabs
    if _tabs:
        return _tabs
    text = open(os.path.join(tlc.SPEC, "PrintfTabs.tla")).read()
    text = re.sub(r"\\\*.*", "", text)

    def body(name):
        m = re.search(name + r" == <<(.*?)>>\s*\n(?=\w|=)", text, re.S)
        return m.group(1)
    ints = [[int(x) for x in g.split(",")] for g in re.findall(r"<<([\d,\s]+)>>", body("IntTab"))]
    strs = [[int(x) for x in g.split(",")] if g.strip() else [] for g in re.findall(r"<<([\d,\s]*)>>", body("StrTab"))]
    wstrs = [[int(x) for x in g.split(",")] if g.strip() else [] for g in re.findall(r"<<([\d,\s]*)>>", body("WStrTab"))]
    dbl = re.findall(r'"([^"]+)"', body("DblTab"))
    ldbl = re.findall(r'"([^"]+)"', body("LdblTab"))
    _tabs = dict(ints=ints, strs=strs, wstrs=wstrs, dbl=dbl, ldbl=ldbl, nullstr=99)
    return _tabs


def limbs_to_i64(l):
    u = l[0] | (l[1] << 16) | (l[2] << 32) | (l[3] << 48)
    return u - (1 << 64) if u >= (1 << 63) else u


def args_tokens(at, av, unterm=None):
    """unterm = p: the (single) narrow string argument is passed as its first p bytes without a terminator, the byte behind them
    inaccessible - what a %.ps directive may read"""
    t = tabs()
    out = []
    for i, ty in enumerate(at):
        v = av[4 * i:4 * i + 4]
        if ty == 1:
            out.append("i %d" % limbs_to_i64(v))
        elif ty == 2:
            if v[0] == t["nullstr"]:
                out.append("s -1")
            else:
                s = t["strs"][v[0] - 1]
                if unterm is not None:
                    out.append("u %d %s" % (unterm, " ".join(map(str, s[:unterm]))))
                else:
                    out.append("s %d %s" % (len(s), " ".join(map(str, s))))
        elif ty == 3:
            out.append("d %s" % t["dbl"][v[0] - 1])
        elif ty == 4:
            out.append("L %s" % t["ldbl"][v[0] - 1])
        elif ty == 5:
            s = t["wstrs"][v[0] - 1]
            out.append("S %d %s" % (len(s), " ".join(map(str, s))))
        elif ty == 6:
            out.append("n %d" % v[0])
        elif ty == 7:
            out.append("b %d" % v[0])
    return out


def case_line(cid, fn, c):
    """c: dict(fmt, at, av, loc, dmax, dnull, fnull, inp)"""
    fmt = c["fmt"]
    inp = c.get("inp", [])
    toks = args_tokens(c["at"], c["av"], c.get("unterm"))
    return "%d %s %d %d %d %d %d %s %d %s %d %s" % (
        cid, fn, c["dmax"], c.get("dnull", 0), c.get("fnull", 0), c.get("loc", 0), len(fmt), " ".join(map(str, fmt)),
        len(inp), " ".join(map(str, inp)), len(toks), " ".join(toks))


def run_hpf(exe, lines, timeout=900):
    events = []
    pos = 0
    restarts = 0
    while pos < len(lines):
        p = subprocess.run([exe], input="\n".join(lines[pos:]) + "\n", stdout=subprocess.PIPE, stderr=subprocess.PIPE, text=True, errors="replace", timeout=timeout)
        got = 0
        for ln in p.stdout.splitlines():
            if ln.startswith("{"):
                events.append(ln)
                got += 1
        pos += got
        if pos < len(lines):
            restarts += 1
            if restarts > 300:
                raise RuntimeError("hpf keeps crashing: " + p.stderr[-300:])
            toks = lines[pos].split()
            nf = int(toks[6])
            fmt = [int(x) for x in toks[7:7 + nf]]
            ev = dict(id=int(toks[0]), fn=toks[1], wide=("w" in toks[1]), dmax=int(toks[2]), dnull=toks[3] == "1", fnull=toks[4] == "1", loc=int(toks[5]),
                      fmt=fmt, inp=[], args=[], rc=-99999, h=[], hn=0, hk="", errno=0, post=[], out=[], refn=-99999, ref=[], frame_ok=True,
                      fault="abort", foff=0)
            events.append(json.dumps(ev, separators=(",", ":")))
            pos += 1
    return events


def run_parallel(exe, lines, jobs=16):
    if not lines:
        return []
    k = max(1, min(jobs, len(lines) // 300 or 1))
    size = (len(lines) + k - 1) // k
    chunks = [lines[i * size:(i + 1) * size] for i in range(k)]
    with ThreadPoolExecutor(max_workers=k) as ex:
        res = list(ex.map(lambda ch: run_hpf(exe, ch), chunks))
    return [e for r in res for e in r]


def gen(workdir, consts, name="genprintf", spec="Spec"):
    cfg = os.path.join(workdir, name + ".cfg")
    tlc.write_cfg(cfg, spec=spec, constants=consts, invariants=["ParserRecovers", "NConvIffBuilt", "ArgsConsumed"])
    r = tlc.model_check("GenPrintf", cfg, workdir, workers=16, dump=True, heap="12g")
    if r["violated"] or not r["ok"]:
        raise tlc.TLCError("GenPrintf grammar-level check failed: %s\n%s" % (r["violated"], r["out"][-2500:]))
    cases = [c for c in tlc.parse_dump(r["dump_path"]) if c.get("fn") != "init"]
    os.unlink(r["dump_path"])
    return cases, r


def execute_and_judge(jobs, workdir, flavours=("slack", "noslack")):
    """jobs: list of (fn, case).  Returns (n events, bad list of dict(fn, case, event, props), states)"""
    b = build.ensure(flavours, [("hpf", f) for f in flavours])
    all_lines = []
    for fi, fl in enumerate(flavours):
        groups = {"narrow": [], "wide": []}
        for ji, (fn, c) in enumerate(jobs):
            eid = ji * len(flavours) + fi
            # stdout orientation is per process: wide stdout users run in their own executor process
            g = "wide" if fn in ("wprintf_s", "vwprintf_s", "wscanf_s", "vwscanf_s") else "narrow"
            groups[g].append(case_line(eid, fn, c))
        evs = run_parallel(b[("hpf", fl)], groups["narrow"]) + run_parallel(b[("hpf", fl)], groups["wide"])
        slack = 0 if fl == "noslack" else 1
        for e in evs:
            all_lines.append('{"slack":%d,' % slack + e[1:])
    n, bad, states = tlc.validate("TracePrintf", os.path.join(tlc.SPEC, "TracePrintf.cfg"), all_lines, workdir, jvms=16, heap="3g")
    out = []
    if bad:
        by_id = {}
        for ln in all_lines:
            i = ln.find('"id":')
            j = ln.find(",", i)
            by_id[int(ln[i + 5:j])] = ln
        for bd in bad:
            eid = bd["i"]
            ji, fi = eid // len(flavours), eid % len(flavours)
            out.append(dict(fn=jobs[ji][0], case=jobs[ji][1], event=json.loads(by_id[eid]), props=sorted(bd["props"]), dev=bd.get("dev", ""), flavour=flavours[fi]))
    return n, out, states


def fmt_str(fmt):
    return "".join(chr(c) if 32 <= c < 127 else ("<%d blanks>" % (c - 100000)) if c >= 100000 else "\\x%02x" % c for c in fmt)


def describe(b):
    e = b["event"]
    return "%s(dmax=%s, \"%s\", %s) %s build: rc=%s h=%s post=%s out=%s fault=%s" % (
        b["fn"], e["dmax"], fmt_str(e["fmt"]), " ".join(args_tokens(b["case"]["at"], b["case"]["av"])), b["flavour"], e["rc"], e["h"],
        fmt_str([x for x in e["post"] if 0 <= x < 256][:24]), fmt_str(e["out"][:24]), e["fault"])


def cluster(b):
    e = b["event"]
    c = b["case"]
    return "%s|%s|cv=%s|ln=%s|rc=%s|hn=%s|%s" % (b["fn"], b["flavour"], chr(c.get("cv", 63)), c.get("ln"), "neg" if e["rc"] < 0 else "ok", e["hn"], e["fault"])


SCOPES = {
    "quick": dict(Convs={100, 117, 120, 88, 111, 99, 115, 37, 102, 101}, FlagSets={0, 1, 2, 3, 5, 6, 10, 14}, Widths={900, 1, 3, 5, 901}, Precs={900, 0, 3},
                  Lens={"", "hh", "l", "ll", "L"}, Shapes={1, 2}, IntIdx={1, 2, 3, 6, 8, 9, 12}),
    # sized to finish in well under an hour and in < 10 GB (about 6x the quick case space): every conversion and flag set; the j and t modifiers are in the C09 scope
    "thorough": dict(Convs={100, 105, 117, 120, 88, 111, 99, 115, 37, 102, 70, 101, 69}, FlagSets=set(range(15)), Widths={900, 1, 5, 901},
                     Precs={900, 0, 1, 5}, Lens={"", "hh", "h", "l", "ll", "z", "L"}, Shapes={1, 2, 3},
                     IntIdx={1, 2, 3, 6, 8, 9, 12}),
}


MINI = dict(Convs={100, 120, 115, 99, 102}, FlagSets={0, 1, 2}, Widths={900, 5}, Precs={900, 0, 3}, Lens={"", "l", "L"}, Shapes={1, 2}, IntIdx={1, 3, 12})
NSCOPE = dict(Convs={110, 100}, FlagSets={0, 1, 2, 3, 5, 15, 16, 17}, Widths={900, 5, 901}, Precs={900, 3}, Lens={"", "hh", "h", "l", "ll", "j", "z", "t", "Z", "q"},
              Shapes={1, 2, 3, 4, 5, 6, 7, 8, 9}, IntIdx={2})


def _violations(prop, bad, res):
    for b in bad:
        if prop not in b["props"]:
            continue
        res.violations.append(dict(desc=describe(b), cluster=cluster(b) + "|" + b["dev"], slug="pf-%s-%d" % (b["fn"], b["event"]["id"]), dev=b["dev"],
                                   replay=dict(kind="printf", fn=b["fn"], case=b["case"], flavour=b["flavour"], observed=b["event"], props=b["props"])))


def unterminated_variants(cases):
    """%.Ns with an explicit precision N <= the argument's length: the same call with the argument cut to its first N bytes, no
    terminator, in front of an inaccessible page (C02: "a %.Ns argument is read for at most N bytes"); the expected text is unchanged"""
    t = tabs()
    out = []
    for c in cases:
        if c.get("cv") != 115 or c.get("ln") not in ("", None) or not isinstance(c.get("p"), int) or c["p"] < 0:
            continue
        strs = [i for i, ty in enumerate(c["at"]) if ty == 2]
        if len(strs) != 1 or c["av"][4 * strs[0]] == t["nullstr"]:
            continue
        s = t["strs"][c["av"][4 * strs[0]] - 1]
        if len(s) < c["p"]:
            continue
        v = dict(c)
        v["unterm"] = c["p"]
        out.append(v)
    return out


def _argviol_cases():
    """dest/fmt NULL, dmax 0 / HUGE for the buffer functions (C05: reported once, nothing touched)"""
    base = dict(fmt=[97, 37, 100], at=[1], av=[5, 0, 0, 0], loc=0, cv=100, ln="")
    out = []
    for dn, fnl, dm in ((1, 0, 8), (0, 1, 8), (0, 0, 0), (0, 0, -1), (1, 0, 0), (1, 1, 8)):
        c = dict(base)
        c.update(dnull=dn, fnull=fnl, dmax=dm)
        out.append(c)
    return out


def run_c11(prop, tier, seed, workdir):
    res = Result("printf")
    rnd = random.Random(seed)
    sc = dict(SCOPES[tier])
    sc["Fns"] = {"x"}
    cases, r = gen(workdir, sc)
    # two directives in one format ("<dir> %d" and "%d|<dir>"): nothing of one directive (flags, width, precision, length) may carry
    # over into the next.  A reduced directive scope, every flag / width / precision / length combination of it.
    sc2 = dict(MINI if tier == "quick" else SCOPES["quick"])
    sc2.update(Shapes={4, 10}, Fns={"x"})
    cases2, r2 = gen(workdir, sc2, name="genprintf2")
    cases = cases + cases2
    fns = NARROW_BUF + NARROW_STREAM
    jobs = []
    for c in cases:
        # every case through sprintf_s and one other entry point (rotating), so that all 8 are covered evenly
        jobs.append(("sprintf_s", c))
    for i, c in enumerate(cases):
        jobs.append((fns[1 + i % 7], c))
    # the text must not depend on earlier calls: the same jobs again in a different order
    second = jobs[:]
    rnd.shuffle(second)
    n1, bad1, st1 = execute_and_judge(jobs, workdir)
    n2, bad2, st2 = execute_and_judge(second[:len(second) // 2], workdir, flavours=("slack",))
    _violations(prop, bad1 + bad2, res)
    nontriv = {(tuple(c["fmt"]), tuple(c["av"])) for c in cases if c.get("cv") != 37}
    res.coverage = dict(
        states=r["distinct"], transitions=r["states"], traces_validated_against_impl=n1 + n2, evaluations=n1 + n2,
        distinct_nontrivial=len(nontriv),
        rule="TLC enumerates formats from the directive grammar (conversions %s, flag sets, widths, precisions incl. '*', length modifiers, "
             "shapes with literal text, and - over a reduced directive scope - two directives in one format: \"<dir> %%d\" and \"%%d|<dir>\") with arguments from the value tables (boundary integers as 16-bit limbs, strings incl. multibyte, "
             "wide strings, doubles incl. +-0, denormal, 1e9 boundary, 1e300, inf, nan) and dmax = needed-1, needed, needed+2 computed from the "
             "contract's own rendering, and checks the grammar-level invariants (ParserRecovers, NConvIffBuilt, ArgsConsumed); every case is "
             "executed through sprintf_s and one of the other 7 narrow entry points (buffers in guarded memory, streams via tmpfile/redirected "
             "stdout), in both slack builds, and a second time in shuffled order; TracePrintf.tla judges every event against the C layout rules "
             "written in Printf.tla (floating conversions: candidate renderings within one unit of the last printed digit of glibc's 45-digit "
             "expansion). non-trivial = distinct (format, arguments) pairs with a converting directive" % sorted(chr(c) for c in sc["Convs"]),
        samples=[dict(fn=j[0], fmt=fmt_str(j[1]["fmt"]), args=args_tokens(j[1]["at"], j[1]["av"]), dmax=j[1]["dmax"]) for j in rnd.sample(jobs, 4)],
        model_cases=len(cases), exhaustive=True, checker_cmd="tlc GenPrintf.tla ; tlc TracePrintf.tla")
    res.assumptions = ["floating accuracy is judged by digit-string comparison against glibc's correctly rounded 45-digit expansion (trusted)",
                       "arguments are passed through a generic variadic call shape (x86-64 SysV ABI: integer and floating arguments travel in separate register files)",
                       "%g %G %a %A %p have no text oracle here (safety obligations only); wide printf text is not judged (C11 names the narrow family)"]
    return res


def run_c09(prop, tier, seed, workdir):
    res = Result("printf-n")
    rnd = random.Random(seed)
    sc = dict(NSCOPE)
    if tier == "thorough":
        sc.update(FlagSets=set(range(15)), Widths={900, 5, 40, 901}, Precs={900, 0, 3, 901})
    sc["Fns"] = {"x"}
    cases, r = gen(workdir, sc, spec="SpecAll")
    pcases = [c for c in cases if c["fn"] != "scan"]
    scases = [c for c in cases if c["fn"] == "scan"]
    jobs = []
    pf = NARROW_BUF + NARROW_STREAM + WIDE_BUF + WIDE_STREAM
    for c in pcases:
        c = dict(c)
        c["dmax"] = 64
        for fn in pf:
            jobs.append((fn, c))
    for c in scases:
        for fn in SCAN_NARROW + SCAN_WIDE:
            jobs.append((fn, c))
    # the n conversion far into the format: a run of 4095 / 4096 / 5000 blanks in front (literal text for printf, a white-space directive
    # for scanf: the conversion is reached either way), so that a scanner that stops at RSIZE_MAX_STR or at a buffer size is seen
    longn = 0
    for c in rnd.sample([c for c in pcases if c.get("cv") == 110 and c.get("shape") != 5], 24 if tier == "quick" else 200):
        for pad in (4096, 5000):
            c2 = dict(c)
            c2["dmax"] = 64
            c2["fmt"] = [100000 + pad] + list(c["fmt"])
            for fn in pf:
                jobs.append((fn, c2))
                longn += 1
    for c in [c for c in scases if c.get("hasn")]:
        for pad in (4095, 4096, 5000):
            c2 = dict(c)
            c2["fmt"] = [100000 + pad] + list(c["fmt"])
            for fn in SCAN_NARROW + SCAN_WIDE:
                jobs.append((fn, c2))
                longn += 1
    n, bad, st = execute_and_judge(jobs, workdir, flavours=("slack",))
    _violations(prop, bad, res)
    res.coverage = dict(
        states=r["distinct"], transitions=r["states"], traces_validated_against_impl=n, evaluations=n, calls_with_the_n_conversion_behind_4096_characters=longn,
        distinct_nontrivial=len({tuple(c["fmt"]) for c in cases if 110 in c["fmt"]}),
        rule="TLC enumerates printf formats built around an n directive with every flag set, width (none, number, '*'), precision and length "
             "modifier (hh h l ll j z t), alone, between literals, behind an escaped %%, in front of another directive, and as escaped text "
             "(%%5ln: no conversion), plus scanf formats (pre-piece x n-directive variants incl. %*n, %%n, literal n x post-piece) with input "
             "synthesised so every directive is reached, and checks that the contract's grammar-accurate parser finds an n conversion iff one "
             "was built in (NConvIffBuilt); every format runs through all 16 printf and 12 scanf entry points with sentinel targets; "
             "formats with an n conversion are repeated behind a run of 4095 / 4096 / 5000 blanks (the conversion beyond RSIZE_MAX_STR characters); "
             "TracePrintf.tla requires: sentinel untouched, the call rejected with one EINVAL report, and no rejection on account of a literal n. "
             "non-trivial = distinct formats containing the letter n",
        samples=[dict(fn=j[0], fmt=fmt_str(j[1]["fmt"])) for j in rnd.sample(jobs, 5)],
        model_cases=len(cases), exhaustive=True, checker_cmd="tlc GenPrintf.tla (SpecAll) ; tlc TracePrintf.tla")
    res.assumptions = ["scanf formats come from a fixed piece table in GenPrintf.tla (ScanPre x ScanN x ScanPost), not from the full scanf grammar",
                       "a store through a %n argument is observed as a change of a 16-byte sentinel slot"]
    return res


def run_props(prop, tier, seed, workdir, res):
    """formatted-output part of C01/C03/C04/C05/C08: adds violations and coverage to res"""
    sc = dict(MINI if tier == "quick" else SCOPES["quick"])
    sc["Fns"] = {"x"}
    cases, r = gen(workdir, sc)
    jobs = []
    fns = NARROW_BUF + WIDE_BUF + ["fprintf_s", "printf_s"]
    for i, c in enumerate(cases):
        jobs.append((fns[i % 4], c))
        if i % 3 == 0:
            jobs.append((fns[4 + i % 6], c))
    for c in _argviol_cases():
        for fn in NARROW_BUF + WIDE_BUF:
            jobs.append((fn, c))
    if prop == "C02":
        # formats that end inside a directive ("50%", "%5", "%-", "%.3", "%l", "%1$", "%*"): the format's terminator is the last element in
        # front of an inaccessible page (hpf), a scanner or parser that steps over it faults.  What such a format produces is not judged
        # here: only the memory-safety verdicts of these calls are taken (they are made for C02 alone).
        tails = [[37], [37, 53], [37, 45], [37, 46, 51], [37, 108], [37, 104, 104], [37, 49, 36], [37, 42], [37, 32], [37, 35, 48], [37, 73], [37, 109], [37, 91], [37, 91, 94]]
        for i, tl in enumerate(tails):
            for pre in ([], [97], [53, 48]):
                c = dict(fmt=pre + tl, at=[], av=[], loc=0, dmax=16, cv=0, ln="", p=-1, inp=[97, 98])
                for fn in NARROW_BUF + WIDE_BUF + ["fprintf_s", "printf_s", "fwprintf_s", "sscanf_s", "vsscanf_s", "fscanf_s", "swscanf_s", "vswscanf_s"]:
                    jobs.append((fn, c))
    uv = unterminated_variants(cases)
    for i, c in enumerate(uv):
        jobs.append((NARROW_BUF[i % len(NARROW_BUF)], c))
        jobs.append((["fprintf_s", "printf_s", "vfprintf_s", "vprintf_s"][i % 4], c))
    res.coverage["printf_unterminated_string_arguments"] = len(uv)
    n, bad, st = execute_and_judge(jobs, workdir)
    if prop == "C02":
        bad = [b for b in bad if b["case"].get("cv") != 0 or b["event"].get("fault") == "r"]
    _violations(prop, bad, res)
    res.coverage["states"] = res.coverage.get("states", 0) + r["distinct"]
    res.coverage["transitions"] = res.coverage.get("transitions", 0) + r["states"]
    res.coverage["traces_validated_against_impl"] = res.coverage.get("traces_validated_against_impl", 0) + n
    res.coverage["evaluations"] = res.coverage.get("evaluations", 0) + n
    res.coverage["printf_cases"] = len(jobs)
    return res


def replay(rp, workdir):
    res = Result("printf-replay")
    n, bad, st = execute_and_judge([(rp["fn"], rp["case"])], workdir, flavours=(rp["flavour"],))
    for b in bad:
        res.violations.append(dict(desc=describe(b), cluster=cluster(b), slug="pf-replay", dev=b["dev"], replay=rp, props=b["props"]))
    print("replayed: %s" % (describe(bad[0]) if bad else "conforming"))
    return res
