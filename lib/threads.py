"""C12 engine: per-call static-footprint observation (hstat on the shared-object build),
validated by TraceThreads.tla; the observed footprint set is fed into Threads.tla as StaticFns
and TLC explores all interleavings (NonInterference)."""
import json
import os
import subprocess

from . import build, tlc
from .engines_common import Result


def symbolize(so, offs):
    """map offsets (relative to the load base) to symbols of the shared object"""
    try:
        out = subprocess.run(["nm", "-S", "--defined-only", so], stdout=subprocess.PIPE, text=True).stdout
    except OSError:
        return {}
    syms = []
    for ln in out.splitlines():
        p = ln.split()
        if len(p) == 4:
            syms.append((int(p[0], 16), int(p[1], 16), p[3]))
    res = {}
    for o in offs:
        for a, sz, name in syms:
            if a <= o < a + max(sz, 1):
                res[o] = name
                break
    return res


def run(prop, tier, seed, workdir):
    res = Result("threads")
    b = build.ensure(["so"], [("hstat", "so")])
    p = subprocess.run([b[("hstat", "so")]], stdout=subprocess.PIPE, stderr=subprocess.PIPE, text=True, timeout=300)
    if p.returncode != 0:
        raise RuntimeError("hstat failed rc=%d: %s" % (p.returncode, p.stderr[-500:]))
    events = [ln for ln in p.stdout.splitlines() if ln.startswith("{")]
    calls = [json.loads(e) for e in events if '"e":"call"' in e]
    n, bad, st = tlc.validate("TraceThreads", os.path.join(tlc.SPEC, "TraceThreads.cfg"), events, workdir, jvms=1)
    static_fns = sorted({bd["fn"] for bd in bad})
    # model check the interleavings with the OBSERVED scratch classification
    fns = sorted({c["fn"] for c in calls})
    model_fns = (static_fns[:2] + [f for f in fns if f not in static_fns][:2])[:3] or fns[:3]
    cfg = os.path.join(workdir, "threads.cfg")
    nthr = 2 if tier == "quick" else 3
    # (1) under the premise the conformance check establishes (no static scratch) the property holds for all interleavings
    tlc.write_cfg(cfg, constants=dict(Thr=set(range(1, nthr + 1)), Fns=set(model_fns), StaticFns=set()),
                  invariants=["NonInterference", "NoStaticFootprint"])
    r0 = tlc.model_check("Threads", cfg, workdir, workers=8)
    if r0["violated"] or not r0["ok"]:
        raise tlc.TLCError("Threads.tla: NonInterference does not hold with automatic scratch only\n" + r0["out"][-1500:])
    # (2) with the functions OBSERVED to leave a footprint marked static, TLC exhibits the corrupting interleaving
    r = r0
    if static_fns:
        tlc.write_cfg(cfg, constants=dict(Thr=set(range(1, nthr + 1)), Fns=set(model_fns), StaticFns=set(f for f in static_fns if f in model_fns)),
                      invariants=["NonInterference"])
        r = tlc.model_check("Threads", cfg, workdir, workers=8)
        r["distinct"] += r0["distinct"]
        r["states"] += r0["states"]
    by_id = {c["id"]: c for c in calls}
    for bd in bad:
        c = by_id[bd["i"]]
        names = symbolize(b["so"], c["offs"])
        what = ", ".join(sorted(set(names.values()))) or "offsets %s" % c["offs"]
        res.violations.append(dict(
            desc="%s changed %d bytes of the library's static storage (%s); Threads.tla with this function static: %s" % (
                c["fn"], c["delta"], what, "NonInterference violated by an interleaving" if r["violated"] else "-"),
            cluster=c["fn"], slug="static-%s" % c["fn"], dev=bd.get("dev", ""),
            replay=dict(kind="threads", probe=c["fn"], observed=c, symbols=names)))
    res.coverage = dict(
        states=r["distinct"], transitions=r["states"], traces_validated_against_impl=len(calls), evaluations=len(calls),
        distinct_nontrivial=len(calls),
        rule="every probe (one per function / scratch site: element size >256 and <=256 for qsort_s, dmax<120 time strings, %%Lf %%Le %%La %%a, "
             "values > 1e9, wide printf no-space probe below and above 512, wcsnorm heap scratch, ...) is called once to warm up, the library's writable "
             "PT_LOAD segments are snapshotted, the probe is called again with different input and the segments compared byte-wise; "
             "TraceThreads.tla requires an empty delta; Threads.tla (%d threads, all interleavings of Begin/Finish steps) is model-checked with "
             "StaticFns = the functions observed to leave a footprint (NonInterference must hold). non-trivial = probes executed" % nthr,
        samples=[calls[0], calls[len(calls) // 2], calls[-1]], probes=[c["fn"] for c in calls], observed_static=static_fns,
        model_result="all-automatic scratch: NonInterference holds; with the observed static set %s: %s" % (static_fns, "interleaving found that corrupts a result" if r["violated"] else "holds"),
        exhaustive=True)
    res.assumptions = ["reentrancy is decided per call by the schedule-independent formulation of the property: static storage bit-identical before and after",
                       "statics inside libc that the library calls (wctomb state, strerror, getenv, setlocale) are outside the snapshot",
                       "a first-call-only lazy initialisation is hidden by the warm-up call", "thread-local storage is not part of the snapshot"]
    return res


def replay(rp, workdir):
    res = run("C12", "quick", 1, workdir)
    res.violations = [v for v in res.violations if v["replay"]["probe"] == rp["probe"]]
    return res
