"""Conformance corpus from the repository's own test programs: every tests/test_*.c is compiled from the working tree and
linked against the library built by lib/build.py together with harness/hwrap.c (ld --wrap on the destination-writing
entry points); the calls the tests make are recorded (operands before / after, code, handler calls) and judged by
TraceArena.tla against the same contracts as the generated cases.  The tests sample inputs the generators do not (long
literals, the authors' corner cases); a rejection here is either a defect the tests tolerate or an over-strict contract."""
import glob
import json
import os
import re
import shutil
import subprocess
from concurrent.futures import ThreadPoolExecutor

from . import build, tlc

HD = os.path.join(build.VERIF, "harness")
WRAPPED = None


def wrapped_symbols():
    global WRAPPED
    if WRAPPED is None:
        src = open(os.path.join(HD, "hwrap.c")).read()
        body = "\n".join(ln for ln in src.splitlines() if not ln.startswith("#define"))
        names = set(re.findall(r"\bWRAP_\w+\((\w+)[,)]", body)) | set(re.findall(r"__wrap__(\w+)_chk\(", body))
        WRAPPED = sorted("_%s_chk" % n for n in names if n != "##NAME##")
    return WRAPPED


def build_tests(workdir):
    b = build.ensure(["slack"], [])
    root = os.path.join(b["root"], "testtrace-" + build.harness_hash())
    done = os.path.join(root, ".done")
    if os.path.exists(done):
        return root
    tmp = root + ".tmp%d" % os.getpid()
    shutil.rmtree(tmp, ignore_errors=True)
    os.makedirs(tmp)
    inc = ["-DHAVE_CONFIG_H", "-w", "-I" + build.REPO, "-I" + build.REPO + "/include", "-I" + build.REPO + "/tests", "-I" + build.REPO + "/src"]
    build._run(["gcc", "-O1", "-g"] + inc + ["-c", os.path.join(HD, "hwrap.c"), "-o", os.path.join(tmp, "hwrap.o")])
    wraps = ["-Wl,--wrap=" + s for s in wrapped_symbols()]
    tests = sorted(t for t in glob.glob(os.path.join(build.REPO, "tests", "test_*.c")) if os.path.basename(t) not in ("test_msvcrt.c", "test_slkm.c"))
    build._run(["gcc", "-O1"] + inc + ["-c", os.path.join(build.REPO, "tests", "test_msvcrt.c"), "-o", os.path.join(tmp, "test_msvcrt.o")])

    def one(t):
        name = os.path.basename(t)[5:-2]
        exe = os.path.join(tmp, "t_" + name)
        p = subprocess.run(["gcc", "-O2"] + inc + [t, os.path.join(tmp, "test_msvcrt.o"), os.path.join(tmp, "hwrap.o"), b["slack"]] + wraps + ["-lm", "-lpthread", "-o", exe],
                           stdout=subprocess.PIPE, stderr=subprocess.STDOUT, text=True)
        return name, p.returncode, p.stdout[-300:]
    with ThreadPoolExecutor(max_workers=16) as ex:
        res = list(ex.map(one, tests))
    failed = [(n, o) for n, rc, o in res if rc != 0]
    open(os.path.join(tmp, "build.json"), "w").write(json.dumps(dict(built=len(res) - len(failed), failed=failed)))
    open(os.path.join(tmp, ".done"), "w").write("ok")
    shutil.rmtree(root, ignore_errors=True)
    os.rename(tmp, root)
    return root


def record(workdir):
    """run every test program once; returns (events as JSON lines with unique ids, meta)"""
    root = build_tests(workdir)
    cache = os.path.join(root, "events.ndjson")
    cache_m = os.path.join(root, "events_mbs.ndjson")
    info = os.path.join(root, "run.json")
    if os.path.exists(cache) and os.path.exists(info):
        meta = json.load(open(info))
        meta["mbs_events"] = open(cache_m).read().splitlines() if os.path.exists(cache_m) else []
        ct = os.path.join(root, "events_tok.ndjson")
        meta["tok_events"] = open(ct).read().splitlines() if os.path.exists(ct) else []
        for key in ("os", "norm"):
            cp = os.path.join(root, "events_%s.ndjson" % key)
            meta[key + "_events"] = open(cp).read().splitlines() if os.path.exists(cp) else []
        return open(cache).read().splitlines(), meta
    exes = sorted(glob.glob(os.path.join(root, "t_*")))
    rundir = os.path.join(workdir, "testrun")
    os.makedirs(rundir, exist_ok=True)

    def one(exe):
        name = os.path.basename(exe)
        log = os.path.join(rundir, name + ".ndjson")
        d = os.path.join(rundir, name + ".d")
        os.makedirs(d, exist_ok=True)
        mlog = os.path.join(rundir, name + ".mbs.ndjson")
        tlog = os.path.join(rundir, name + ".tok.ndjson")
        olog = os.path.join(rundir, name + ".os.ndjson")
        nlog = os.path.join(rundir, name + ".norm.ndjson")
        env = dict(os.environ, VERIF_WRAPLOG=log, VERIF_WRAPLOG_MBS=mlog, VERIF_WRAPLOG_TOK=tlog, VERIF_WRAPLOG_OS=olog, VERIF_WRAPLOG_NORM=nlog, TZ="UTC")
        try:
            p = subprocess.run([exe], cwd=d, env=env, stdin=subprocess.DEVNULL, stdout=subprocess.DEVNULL, stderr=subprocess.DEVNULL, timeout=120)
            rc = p.returncode
        except subprocess.TimeoutExpired:
            rc = -999
        lines = open(log).read().splitlines() if os.path.exists(log) else []
        mlines = open(mlog).read().splitlines() if os.path.exists(mlog) else []
        tlines = open(tlog).read().splitlines() if os.path.exists(tlog) else []
        extra = {}
        for key, path in (("os", olog), ("norm", nlog)):
            extra[key] = open(path).read().splitlines() if os.path.exists(path) else []
        return name, rc, lines, mlines, tlines, extra
    with ThreadPoolExecutor(max_workers=16) as ex:
        outs = list(ex.map(one, exes))
    events, origin, skipped, rcs = [], {}, 0, {}
    eid = 0
    mbs_events, mid = [], 0
    tok_events, sid_base = [], 0
    other = {"os": [], "norm": []}
    for name, rc, lines, mlines, tlines, extra in outs:
        rcs[name] = rc
        for key in other:
            for ln in extra[key]:
                if ln.startswith('{"id"') and ln.endswith("}"):
                    other[key].append('{"slack":1,"id":%d,"prog":"%s",' % (len(other[key]) + 1, name) + ln[ln.index(",") + 1:])
        top = 0
        for ln in tlines:          # session ids are made unique across programs (ids = sid * 1000 + call index)
            if ln.startswith('{"e"') and ln.endswith("}"):
                e = json.loads(ln)
                top = max(top, e["sid"])
                e["id"] = (e["sid"] + sid_base) * 1000 + e["id"] % 1000
                e["sid"] += sid_base
                e["prog"] = name
                tok_events.append(json.dumps(e, separators=(",", ":")))
        sid_base += top
        for ln in mlines:
            if ln.startswith('{"id"') and ln.endswith("}"):
                mid += 1
                mbs_events.append('{"slack":1,"id":%d,"prog":"%s",' % (mid, name) + ln[ln.index(",") + 1:])
        for ln in lines:
            if ln.startswith('{"skip"'):
                skipped += json.loads(ln)["skip"]
                continue
            if not ln.startswith('{"id"') or not ln.endswith("}"):
                continue
            if '"fn":"wcsicmp_s"' in ln or '"fn":"wcsnat' in ln:
                # the case folding of the contract is the one-to-one folding of ASCII; calls with other characters in an operand are counted, not judged
                e = json.loads(ln)

                def chars(p, lim):
                    out = []
                    for j in range(max(0, lim)):
                        if p <= 0 or p - 1 + j >= len(e["pre"]):
                            break
                        out.append(e["pre"][p - 1 + j])
                        if out[-1] == 0:
                            break
                    return out
                if any(c > 127 for c in chars(e["d"], e["dmax"]) + chars(e["s"], e["slen"])):
                    skipped += 1
                    continue
            eid += 1
            origin[eid] = name
            events.append('{"slack":1,"id":%d,' % eid + ln[ln.index(",") + 1:])
    meta = dict(programs=len(exes), events=len(events), skipped_calls=skipped, origin={str(k): v for k, v in origin.items()},
                nonzero_exit=sorted(n for n, r in rcs.items() if r != 0), build=json.load(open(os.path.join(root, "build.json"))))
    open(cache, "w").write("\n".join(events) + "\n")
    open(cache_m, "w").write("\n".join(mbs_events) + ("\n" if mbs_events else ""))
    open(os.path.join(root, "events_tok.ndjson"), "w").write("\n".join(tok_events) + ("\n" if tok_events else ""))
    meta["tok_events"] = tok_events
    for key in other:
        open(os.path.join(root, "events_%s.ndjson" % key), "w").write("\n".join(other[key]) + ("\n" if other[key] else ""))
        meta[key + "_events"] = other[key]
    json.dump(meta, open(info, "w"))
    meta["mbs_events"] = mbs_events
    return events, meta


def run_props(prop, tier, seed, workdir, res):
    events, meta = record(workdir)
    n, bad, st = tlc.validate("TraceArena", os.path.join(tlc.SPEC, "TraceArena.cfg"), events, workdir, jvms=16)
    byid = None
    for bd in bad:
        if prop not in bd["props"]:
            continue
        if byid is None:
            byid = {json.loads(e)["id"]: e for e in events}
        e = json.loads(byid[bd["i"]])
        prog = meta["origin"].get(str(bd["i"]), "?")
        res.violations.append(dict(
            desc="%s called by the repository's %s: %s(d=%d dmax=%d s=%d slen=%d n=%d dbos=%d) rc=%d h=%s" % (e["fn"], prog, e["fn"], e["d"], e["dmax"], e["s"], e["slen"], e["n"], e["dbos"], e["rc"], e["h"]),
            cluster="testtrace|%s|%s" % (e["fn"], ",".join(sorted(bd["props"]))), slug="tt-%s-%d" % (e["fn"], bd["i"]), dev=bd["dev"],
            replay=dict(kind="testtrace", event=e, program=prog)))
    res.coverage["testsuite_trace_events"] = n
    res.coverage["testsuite_trace_programs"] = meta["programs"]
    res.coverage["testsuite_calls_not_expressible"] = meta["skipped_calls"]
    res.coverage["evaluations"] = res.coverage.get("evaluations", 0) + n
    res.coverage["traces_validated_against_impl"] = res.coverage.get("traces_validated_against_impl", 0) + n
    res.coverage["rule"] += ("; plus the calls the repository's own %d test programs make to the copy / fill / transform entry points, recorded through ld --wrap "
                             "(harness/hwrap.c) and judged by TraceArena.tla (%d events; %d calls with sizes beyond the recording window skipped)" % (meta["programs"], n, meta["skipped_calls"]))
    return res


def corpus(key, workdir):
    """recorded calls of the repository's tests in the event format of the engine `key` ('os' or 'norm')"""
    events, meta = record(workdir)
    return meta.get(key + "_events", [])


def run_tok(res, workdir):
    """C14: the tokenising sessions of the repository's tests, judged by TraceTok.tla"""
    events, meta = record(workdir)
    ev = meta["tok_events"]
    if not ev:
        return res
    n, bad, st = tlc.validate("TraceTok", os.path.join(tlc.SPEC, "TraceTok.cfg"), ev, workdir, jvms=1)
    byid = {json.loads(e)["id"]: json.loads(e) for e in ev}
    for bd in bad:
        e = byid[bd["i"]]
        res.violations.append(dict(desc="tokenizer call #%d of a session in the repository's %s (delim=%s): %s" % (bd["i"] % 1000, e.get("prog"), e.get("delim"), bd["why"]),
                                   cluster="testtrace-tok|%s" % bd["why"], slug="tt-tok-%d" % bd["i"], dev=bd.get("dev", ""),
                                   replay=dict(kind="testtrace-tok", session=[json.loads(x) for x in ev if json.loads(x)["sid"] == e["sid"]], why=bd["why"])))
    res.coverage["testsuite_tokenizer_events"] = n
    res.coverage["evaluations"] = res.coverage.get("evaluations", 0) + n
    res.coverage["rule"] += "; plus %d tokenizer events (sessions) recorded from the repository's own test programs (harness/hwrap.c), judged by TraceTok.tla" % n
    return res


def run_mbs(res, workdir):
    """C15: the conversion calls of the repository's tests, judged by TraceMbs.tla"""
    events, meta = record(workdir)
    ev = meta["mbs_events"]
    if not ev:
        return res
    n, bad, st = tlc.validate("TraceMbs", os.path.join(tlc.SPEC, "TraceMbs.cfg"), ev, workdir, jvms=4)
    byid = {json.loads(e)["id"]: json.loads(e) for e in ev}
    for bd in bad:
        e = byid[bd["i"]]
        if bd["why"].startswith("ORACLE"):
            raise tlc.TLCError("test-suite corpus: Mbs.tla does not describe libc for %s" % json.dumps(e)[:400])
        res.violations.append(dict(desc="conversion call fn=%d of the repository's %s (%s dmax=%d len=%d src=%s): %s" % (e["fn"], e["prog"], e["loc"], e["dmax"], e["len"], e["src"][:12], bd["why"]),
                                   cluster="testtrace-mbs|%d|%s" % (e["fn"], bd["why"]), slug="tt-mbs-%d" % bd["i"], dev=bd.get("dev", ""),
                                   replay=dict(kind="testtrace-mbs", event=e, why=bd["why"])))
    res.coverage["testsuite_conversion_calls"] = n
    res.coverage["evaluations"] = res.coverage.get("evaluations", 0) + n
    res.coverage["traces_validated_against_impl"] = res.coverage.get("traces_validated_against_impl", 0) + n
    res.coverage["rule"] += "; plus %d conversion calls recorded from the repository's own test programs (harness/hwrap.c), judged by TraceMbs.tla" % n
    return res


def replay(rp, workdir, prop):
    from .engines_common import Result
    res = Result("testtrace-replay")
    # the recorded event is re-judged (re-running the test program would need its whole call history)
    ev = '{"slack":1,' + json.dumps(rp["event"])[1:]
    print(ev)
    n, bad, st = tlc.validate("TraceArena", os.path.join(tlc.SPEC, "TraceArena.cfg"), [ev], workdir, jvms=1)
    for bd in bad:
        if prop in bd["props"]:
            res.violations.append(dict(desc="recorded event rejected", cluster="testtrace", slug="tt-replay", dev=bd["dev"], replay=rp))
    return res
