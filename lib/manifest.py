"""Regenerates /verif/MANIFEST.json from the tables below:  python3 -m lib.manifest"""
import json
import os

VERIF = os.path.dirname(os.path.dirname(os.path.abspath(__file__)))

ARENA_NOTE = ("besides the generated calls, the calls made by the repository's own test programs are recorded (harness/hwrap.c) and judged by the same TraceArena.tla; assumes the small-scope hypothesis (arena of N cells, sizes 0..K and HUGE, see evidence coverage.scopes); trusted: TLC, "
              "gcc, the guard-page/handler-counting executor harness/hx.c (records only, never judges); library-internal objects are not "
              "observed by guard pages")

CLAIMS = {
    "C01": dict(level="model_checking", tech="TLA+ contract model checked by TLC + replay of every enumerated call into the real code under guard pages + TLC trace validation",
                text="TLC proves on the bounded model that no outcome admitted by the contracts stores outside the declared destination (C01_T), and every call "
                     "TLC enumerates is executed in guarded memory against the library built from /repo; TLC judges each recorded event (write faults, canary frame, cells outside dest).",
                ref="§3 C01"),
    "C02": dict(level="model_checking", tech="TLA+ contract model + guard-page replay + TLC trace validation",
                text="every readable extent of the enumerated calls is placed flush against an inaccessible page in both directions (dest as well as src as the last object; string arguments of the formatted-output family cut to the N bytes a %.Ns directive may read, without a terminator); a read fault is judged by the trace spec as a C02 violation",
                ref="§3 C02"),
    "C03": dict(level="model_checking", tech="TLA+ contract model checked by TLC (C03_T) + replay + TLC trace validation (C03_Direct)",
                text="TLC checks that every admitted outcome of every string-producing call leaves a NUL inside dest; the trace spec evaluates the same predicate on every recorded post-state with dirty, NUL-free prior content",
                ref="§3 C03"),
    "C04": dict(level="model_checking", tech="TLA+ contract model (error templates) + replay + TLC trace validation",
                text="error outcomes are templates (first element zero, every element original-or-zero, all zero in the null-slack build); TLC checks them against C04_T and judges every recorded failing call cell by cell",
                ref="§3 C04"),
    "C05": dict(level="model_checking", tech="TLA+ contract model (violation lattice) + counting-handler replay + TLC trace validation",
                text="for every combination of simultaneously violated constraints in scope the contract admits exactly one handler call whose code equals the returned code; observed handler logs and return codes are judged by TLC; HUGE operands live in inaccessible memory",
                ref="§3 C05"),
    "C06": dict(level="model_checking", tech="TLA+ contract vs independent reference semantics (C06_T) + replay + TLC trace validation",
                text="TLC checks the contract's success templates against an independently written reference of the standard functions (no silent truncation included) and judges every recorded success cell by cell, returned pointers/counts included; an implementation-shaped model of mem_prim_move (MemMove.tla: direction choice, alignment head, word copies, tail) is checked to have memmove semantics for every placement and alignment",
                ref="§3 C06"),
    "C07": dict(level="model_checking", tech="TLA+ overlap model over all relative placements + algorithm-layer model of the bumper loops refining it (Bumper.tla) + replay + TLC trace validation",
                text="all offsets of src relative to dest inside one arena are enumerated by TLC; C07_T fixes the disjoint / must-reject regions; recorded events are judged (ESOVRLP on disjoint operands, success on intersecting read/write sets, corrupted copies)",
                ref="§3 C07"),
    "C08": dict(level="model_checking", tech="TLA+ contract model (slack cells) + dirty-prefill replay in both builds + TLC trace validation",
                text="success templates mark every cell from the terminator to dmax exact-zero in the null-slack build; dest is pre-filled with non-NUL garbage so stale bytes are visible; both builds are executed and judged",
                ref="§3 C08"),
}

CLAIMS["C13"] = dict(level="model_checking", tech="TLA+ model of handler registration/dispatch (Handlers.tla) checked by TLC + lockstep pthread replay of its histories + TLC trace validation (subset construction)",
    text="TLC explores all registration/spawn histories up to a bound with a violation probe after every prefix and checks the declarative "
         "history property against the operational dispatch; the histories are replayed with real pthreads one call at a time and every "
         "observation (handler identity, thread, code, previous-handler return values) is validated by TraceHandlers.tla",
    ref="§3 C13", note="bounded histories (3 threads, <= 4/5 operations exhaustively, longer by seeded sampling); interleaving at call granularity; thread exit not modelled; trusted: TLC, pthreads, harness/hhand.c (records only)")
CLAIMS["C14"] = dict(level="model_checking", tech="TLA+ tokenizer state machine (Tok.tla) checked by TLC + replay of every model session through strtok_s/wcstok_s + TLC trace validation against a reference position",
    text="TLC explores every tokenising session over short strings, all dmax relations and changing delimiter sets and checks that the returned "
         "tokens are exactly the maximal delimiter-free runs, in place, inside dmax; every session is replayed against the real functions in "
         "guarded memory and each call is judged by TraceTok.tla against the model's own reference position",
    ref="§3 C14", note="strings of length <= 4/5 exhaustively, longer only by seeded random sessions; trusted: TLC, harness/htok.c (records only)")

CLAIMS["C09"] = dict(level="model_checking", tech="TLA+ grammar-accurate format parser (Printf.tla) checked by TLC over the directive grammar + replay through all 16 printf and 12 scanf entry points with sentinel targets + TLC trace validation",
    text="TLC enumerates formats built around n directives (every flag set, width, precision, length modifier, escaped-percent contexts, and escaped text "
         "that only looks like %n) and checks NConvIffBuilt/ParserRecovers on the contract's parser; every format is executed through every entry "
         "point with a sentinel behind each pointer argument and TracePrintf.tla requires: no sentinel changed, the call rejected with one EINVAL "
         "report, and no rejection on account of a literal n",
    ref="§3 C09", note="scanf formats come from a fixed piece table; trusted: TLC, harness/hpf.c (records only), x86-64 SysV variadic call shapes")
CLAIMS["C11"] = dict(level="model_checking", tech="TLA+ transcription of the C printf layout rules (Printf.tla: parser, limb arithmetic, integer/char/string rendering, floating candidates) + TLC-enumerated directive space replayed through the 8 narrow entry points + TLC trace validation",
    text="the expected characters of d i u x X o c s % lc ls are computed in TLA+ from the C standard's rules (64-bit values as 16-bit limbs), for f F e E "
         "as the set of renderings within one unit of the last printed digit of glibc's 45-digit expansion; TLC enumerates flags x width x precision x "
         "length x conversion x boundary arguments x dmax around the needed size, every case is executed (buffers in guarded memory, streams through "
         "tmpfile / redirected stdout, twice in different orders) and every event is judged by TracePrintf.tla",
    ref="§3 C11", note="floating accuracy: digit-string comparison against glibc's expansion (trusted), no IEEE model; %g %G %a %A %p have no text oracle; wide printf text not judged; known limitations of the embedded float formatter are named deviations (known_findings.txt)")

CLAIMS["C10"] = dict(level="model_checking", tech="TLA+ definitions of the standard query functions (StrQuery.tla) + TLC-enumerated operand space replayed into the real functions in guarded memory + TLC trace validation",
    text="the expected answer of every comparison / search / span / length / classification function is written in TLA+ from the standard "
         "function's definition restricted to the first dmax (and slen) elements; TLC enumerates all operand pairs over a small alphabet (case pair, "
         "high-bit byte, digit, blank) with lengths 0..K and dmax/slen below, at and above the string lengths, checks C10_T (operands unmodified, "
         "antisymmetry of comparisons) and every call is executed with both operands flush against inaccessible pages and judged by TraceArena.tla",
    ref="§3 C10", note=ARENA_NOTE + "; wcsicmp_s by lower-case folding over the arena alphabet, the natural-order functions by StrQuery!NatCmp (Martin Pool's algorithm transcribed); strcoll_s / wcscoll_s in the C locale (their unbounded scan is a named deviation)")
CLAIMS["C12"] = dict(level="model_checking", tech="TLA+ interleaving model of scratch storage (Threads.tla) checked by TLC + per-call static-footprint observation of the library's .data/.bss validated by TraceThreads.tla",
    text="TLC explores all interleavings of threads whose calls stage intermediate values in automatic or static scratch: NonInterference holds iff no "
         "function uses static scratch; the code is bound to that premise by the property's schedule-independent formulation: for every probe (each "
         "function / scratch site) the library's writable segments are bit-identical before and after the call; an observed footprint is fed back into "
         "the model, which then exhibits the corrupting interleaving",
    ref="§3 C12", note="statics inside libc are outside the snapshot; first-call-only initialisation is hidden by the warm-up call; TLS is not snapshotted; trusted: dl_iterate_phdr segment bounds, harness/hstat.c")
CLAIMS["C20"] = dict(level="fault_enumeration", tech="TLA+ allocation-discipline machine (Alloc.tla) + enumeration of every allocating call site x failing position with an interposed allocator + TLC trace validation",
    text="every scenario reaching an allocating call site is run once without faults (leak check) and once per allocation request with that request "
         "failing; the allocator event sequence of each run must be a behaviour of Alloc.tla: no crash, no use of a failed request, every block freed "
         "before return, failure indication and cleared dest after a failed request",
    ref="§3 C20", note="single failures; call sites reached through the listed scenarios (coverage.scenario_list); libc-internal allocations are not failed; trusted: -Wl,--wrap interposition, harness/halloc.c")

CLAIMS["C16"] = dict(level="model_checking", tech="TLA+ contract of qsort_s/bsearch_s (SortContract.tla, Sort.tla) checked by TLC + TLC-enumerated key patterns replayed into the real functions with a recording comparator + TLC trace validation",
    text="TLC enumerates every key pattern of length 0..MaxN over a small key set (with duplicates), checks the contract for consistency and emits each "
         "case; hsort runs qsort_s with tagged elements flush against inaccessible pages and a comparator that records every pair of pointers and the "
         "context it receives, and bsearch_s on the sorted arrays for present, absent and out-of-range keys; TraceSort.tla accepts a run only if the "
         "result is a permutation of the tagged input ordered by key, every comparison pointed at elements of the array with the caller's context, "
         "and bsearch_s returned a matching element iff one exists; larger arrays (to 1500 elements: insertion-sort / median / recursion switches) come from a seeded sweep",
    ref="§3 C16", note="all arrays of <= 7 (quick) elements over 3 keys exhaustively, longer ones seeded; element sizes 1..24 incl. non-word sizes; inconsistent comparators only for memory safety; trusted: TLC, harness/hsort.c (records only)")
CLAIMS["C17"] = dict(level="model_checking", tech="UAX #15 written in TLA+ (NormDefs.tla, tables generated into UCD14.tla) with its laws checked by TLC (Norm.tla) + sweep of every mapped code point / composing pair / Hangul / seeded strings through wcsnorm_s, iswfc, towfc_s, wcsfc_s + TLC trace validation",
    text="decomposition (recursive + Hangul arithmetic), canonical ordering and composition with the blocking rule are TLA+ operators; TLC checks "
         "idempotence and NFD/NFC agreement on all short strings over critical code points; every result of the real wcsnorm_s is compared by "
         "TraceNorm.tla with NFD/NFC of those operators (content, terminator, reported length, cleared slack, failure only when the documented room "
         "is missing), each result is normalized again, out-of-range values must be rejected without a fault, and the emitted fold lengths must match iswfc; "
         "the exported stages wcsnorm_decompose_s / wcsnorm_reorder_s / wcsnorm_compose_s are judged against the stage operators (DecompStr, Reorder, ComposeRec) "
         "for every dmax from 1 to ample, and aliases of the composing pairs in other planes / rows must not compose",
    ref="§3 C17", note="oracle tables from python3 unicodedata 14.0 (independent of the library's generated headers); quick: all mapped code points + 6000 sampled others, thorough: every assigned code point; compat forms (NFKD/NFKC) are not built in this configuration; fold mapping values are not compared with CaseFolding.txt; trusted: TLC, harness/hnorm.c")
CLAIMS["C15"] = dict(level="model_checking", tech="TLA+ definition of the C library's two codesets and its restartable converters (Mbs.tla) with laws checked by TLC (GenMbs.tla) + every enumerated call replayed through the six _s functions next to the standard function + TLC trace validation (TraceMbs.tla)",
    text="ASCII and the C library's UTF-8 (decode, encode), mbsrtowcs / wcsrtombs / wcrtomb and the _s contract (the standard result if it fits into dmax "
         "with its terminator, otherwise an error with dest cleared; C11's len >= dmax constraint) are TLA+ operators; TLC enumerates all strings of a "
         "few characters of every width with at most one ill-formed unit x len x dmax x locale x null dest and checks round trip, query-length and "
         "chunked-conversion laws; each call runs in guarded memory in both slack builds, restartable calls are continued and their state re-used "
         "after errors; TraceMbs.tla first requires the recorded standard-function result to equal the definition, then judges the _s result",
    ref="§3 C15", note="locales C and C.UTF-8 of this glibc only (the property's quantifier); strings of <= 3 (quick) / 4 characters exhaustively, longer seeded; state-dependent encodings do not exist here; return codes on the size-query form are only required to be EOK or ESNOSPC (the tests pin ESNOSPC for dmax 0); trusted: TLC, harness/hmbs.c (records only)")
CLAIMS["C19"] = dict(level="model_checking", tech="TLA+ model of the two accumulate-over-all-bytes algorithms with an observation history (TimingSafe.tla; TLC checks result correctness and data independence for all contents, and that an early-exit variant violates it) + results replayed into the real functions + valgrind memcheck/lackey observations of the compiled code validated by TraceTimingSafe.tla",
    text="the result contract and the algorithm as a step machine whose steps append (label, index) to obs; DataIndependent = obs is a function of n; TLC "
         "covers all content pairs over five byte classes for n <= 3/4.  The code is bound twice: every final model state, all 256x256 byte pairs at the "
         "first difference and seeded long regions are executed in three builds and judged against the contract; and per build, function and n the "
         "instruction/address trace of the function (lackey) must be identical for different content patterns while memcheck, with both regions marked "
         "undefined, must report no decision depending on them - a monitor for the 2-safety property the model states",
    ref="§3 C19", note="data independence is observed, per n in a list (quick: 15 sizes to 64, thorough: 0..69 and 8 larger), on gcc -O0/-O2/-O3 x86-64 builds of the working tree; instruction- and address-level only (no micro-architectural timing); trusted: valgrind's definedness tracking and lackey trace, nm symbol ranges, harness/hts.c")
CLAIMS["C18"] = dict(level="exploration", tech="TLA+ dead-store-elimination model and configuration matrix (Erase.tla) checked / enumerated by TLC + one compiled client per matrix cell observed out-of-band + TLC trace validation (TraceErase.tla, EraseContract.tla)",
    text="Erase.tla shows in the model why the property depends on the caller's build: an erase made of plain stores visible to the optimiser is the only "
         "cell in which dead-store elimination may remove it; the matrix optimisation level x link mode (library as shipped / rebuilt with -flto / shared) x "
         "function x storage (stack, heap-then-free, static) x constant or run-time parameters x n x offset is enumerated by TLC, each cell is a real "
         "client program compiled from the working tree in which the buffer is dead after the call, and a separately compiled observer reads the bytes "
         "after the frame is gone / when the block reaches free / at exit; every observation is judged against the contract (fill value in exactly the addressed bytes)",
    ref="§3 C18", note="an exploration of concrete build configurations (gcc 12 and clang 14, x86-64; quick: O0/O2/O3 x static / gcc LTO / clang LTO, thorough: O0..Os x static / LTO / shared / clang LTO / clang caller; zero and non-zero fill values), not a proof about all compilers; the decision is by observing compiled programs - the TLA+ part is the optimiser model, the matrix and the judge; trusted: the observer's out-of-band read, harness/erase/*.c")

NOT_YET = {
}


def main():
    checks = []
    for pid in sorted(CLAIMS):
        c = CLAIMS[pid]
        checks.append(dict(
            property_id=pid,
            quick_cmd="./check %s --tier quick" % pid,
            thorough_cmd="./check %s --tier thorough" % pid,
            evidence_file="/verif/evidence/%s.json" % pid,
            replay_cmd_template="./check %s --replay {path}" % pid,
            engine="tla-safec",
            level_claimed=dict(category=c["level"], text=c["text"], design_ref=c["ref"]),
            level_note=c.get("note", ARENA_NOTE),
            technique=c["tech"]))
    props = [json.loads(l)["id"] for l in open(os.path.join(VERIF, "properties.jsonl"))]
    na = []
    for pid in props:
        if pid not in CLAIMS:
            na.append(dict(property_id=pid, reason=NOT_YET.get(pid, "not claimed yet: the specification module and its conformance binding for this property are still being built (see DESIGN.md §8)")))
    man = dict(
        version=1,
        setup_cmd="python3 -m lib.setup",
        hooks=dict(guard="SAFEC_VERIF", enable="no source hooks are needed: the library is compiled from /repo's working tree by lib/build.py with -DSAFEC_VERIF=1 (nothing in the tree tests it)",
                   baseline_off_cmd="make -C /repo -k check", source_commits=[], add_only=True),
        engines=[dict(name="tla-safec", path="/verif/check", serves_properties=sorted(CLAIMS),
                      kind_free_text="explicit TLA+ specification (spec/*.tla) model-checked with TLC; TLC-enumerated calls/behaviours replayed into the library built from /repo; recorded executions validated against the specification by TLC")],
        checks=checks,
        not_applicable=na,
        notes="See DESIGN.md. known_findings.txt lists genuine defects recorded rather than repaired; fix: commits in /repo repair the others.")
    json.dump(man, open(os.path.join(VERIF, "MANIFEST.json"), "w"), indent=1)
    print("MANIFEST.json: %d checks, %d not_applicable" % (len(checks), len(na)))


if __name__ == "__main__":
    main()
