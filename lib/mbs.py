"""C15 engine: Mbs.tla defines the two encodings, the standard conversion functions and their laws; GenMbs.tla enumerates the
call space (TLC checks the laws on every source); every call is executed by hmbs (plain and restartable form, restartable
calls continued until the source is used up, the conversion state re-used after errors), together with the standard function
on a private copy; TraceMbs.tla validates every recorded call."""
import json
import os
import random
import subprocess
from concurrent.futures import ThreadPoolExecutor

from . import build, tlc
from .engines_common import Result

FN = {1: "mbstowcs_s", 2: "mbsrtowcs_s", 3: "wcstombs_s", 4: "wcsrtombs_s", 5: "wcrtomb_s", 6: "wctomb_s"}
LOC = {"C": 0, "UTF8": 1}


def u8len(c):
    return 1 if c < 0x80 else 2 if c < 0x800 else 3 if c < 0x10000 else 4 if c < 0x200000 else 5 if c < 0x4000000 else 6


def line(cid, fn, loc, dmax, ln, dn, flags, src):
    return "%d %d %d %d %d %d %d %d %s" % (cid, fn, LOC[loc], dmax, ln, dn, flags, len(src), " ".join(map(str, src)))


def sessions_from_states(states, rnd, tier):
    """Each model state -> sessions (lists of call tuples) for the functions of its direction."""
    out = []
    for st in states:
        d, loc, src, ln, dmax, dn = st["dir"], st["loc"], st["src"], st["len"], st["dmax"], st["dn"]
        if d == "init":
            continue
        if d == "m":
            out.append([(1, loc, dmax, ln, dn, 0, src)])
            # restartable: the call, then continued with ample room until the source is used up, then a fresh valid string on the same state
            out.append([(2, loc, dmax, ln, dn, 0, src), (2, loc, 12, 11, 0, 1, src), (2, loc, 12, 11, 0, 1, src), (2, loc, 4, 3, 0, 2, [97, 122, 0])])
        elif d == "w":
            out.append([(3, loc, dmax, ln, dn, 0, src)])
            out.append([(4, loc, dmax, ln, dn, 0, src), (4, loc, 20, 19, 0, 1, src), (4, loc, 20, 19, 0, 1, src), (4, loc, 4, 3, 0, 2, [97, 122, 0])])
        else:
            out.append([(5, loc, dmax, 0, dn, 0, src), (5, loc, 8, 0, 0, 2, [97])])
            out.append([(6, loc, dmax, 0, dn, 0, src), (6, loc, 8, 0, 0, 0, [97])])
    return out


def extra_sessions(rnd, tier):
    """argument violations, long strings (beyond the TLC scope), round trips are derived later"""
    out = []
    for loc in ("C", "UTF8"):
        mb = [97, 98, 0]
        wc = [97, 98, 0]
        for fn, src in ((1, mb), (2, mb), (3, wc), (4, wc)):
            for flags in (4, 8, 16, 32):
                if flags in (16, 32) and fn in (1, 3):
                    continue
                out.append([(fn, loc, 8, 7, 0, flags, src)])
                out.append([(fn, loc, 8, 7, 1, flags, src)])
            out.append([(fn, loc, 0, 3, 0, 0, src)])
            out.append([(fn, loc, 5000, 3, 0, 0, src)])
            out.append([(fn, loc, 8, 5000, 0, 0, src)])
        for fn in (5, 6):
            for flags in (4, 16):
                if fn == 6 and flags == 16:
                    continue
                out.append([(fn, loc, 8, 0, 0, flags, [97])])
            out.append([(fn, loc, 0, 0, 0, 0, [97])])
            out.append([(fn, loc, 5000, 0, 0, 0, [97])])
    # seeded longer strings in UTF-8 (P2: beyond the TLC scope)
    valid = [97, 233, 8364, 128512, 0x7FF, 0x800, 0xFFFF, 0x10000, 0x10FFFF, 0x41]
    n = 300 if tier == "quick" else 6000

    def enc(c):
        return list(chr(c).encode("utf-8"))
    for _ in range(n):
        k = rnd.randint(1, 24)
        w = [rnd.choice(valid) for _ in range(k)]
        if rnd.random() < 0.15:
            w[rnd.randrange(k)] = rnd.choice([0xD800, 0xDFFF])
        b = [x for c in w for x in (enc(c) if not 0xD800 <= c <= 0xDFFF else [0xED, 0xA0, 0x80])]
        if rnd.random() < 0.1:
            b.insert(rnd.randrange(len(b) + 1), rnd.choice([0x80, 0xC0, 0xFF, 0xF5]))
        L, B = len(w), len(b)
        for _ in range(2):
            ln = rnd.choice([0, 1, L - 1, L, L + 1, L + 5, 60])
            dmax = rnd.choice([1, L - 1, L, L + 1, L + 2, ln, ln + 1, 60])
            out.append([(1, "UTF8", max(1, dmax), max(0, ln), 0, 0, b + [0])])
            out.append([(2, "UTF8", max(1, dmax), max(0, ln), 0, 0, b + [0]), (2, "UTF8", 100, 99, 0, 1, b + [0])])
            ln = rnd.choice([0, 1, B - 2, B - 1, B, B + 1, B + 5, 120])
            dmax = rnd.choice([1, B - 1, B, B + 1, B + 2, ln, ln + 1, 120])
            out.append([(3, "UTF8", max(1, dmax), max(0, ln), 0, 0, w + [0])])
            out.append([(4, "UTF8", max(1, dmax), max(0, ln), 0, 0, w + [0]), (4, "UTF8", 200, 199, 0, 1, w + [0])])
    return out


def run_sessions(sessions, workdir, flavours=("slack", "noslack"), base=0):
    # every third session once more with the size of the destination object known to the library (flag 64): nothing may change
    sessions = list(sessions) + [[(c[0], c[1], c[2], c[3], c[4], c[5] | 64, c[6]) for c in ses] for i, ses in enumerate(sessions) if i % 3 == 0]
    b = build.ensure(list(flavours), [("hmbs", f) for f in flavours])
    lines, meta = [], {}
    cid = base
    for ses in sessions:
        for call in ses:
            cid += 1
            meta[cid] = call
            lines.append(line(cid, *call))
    # sessions must stay in one chunk: split at session boundaries
    k = 16
    bounds, pos = [0], 0
    per = (len(lines) + k - 1) // k
    acc = 0
    for ses in sessions:
        acc += len(ses)
        pos += len(ses)
        if acc >= per:
            bounds.append(pos)
            acc = 0
    if bounds[-1] != len(lines):
        bounds.append(len(lines))
    chunks = [lines[bounds[i]:bounds[i + 1]] for i in range(len(bounds) - 1)]
    events = []
    for fl in flavours:
        exe = b[("hmbs", fl)]

        def runchunk(ch, exe=exe, fl=fl):
            p = subprocess.run([exe], input="\n".join(ch) + "\n", stdout=subprocess.PIPE, stderr=subprocess.PIPE, text=True, timeout=1200)
            got = [ln for ln in p.stdout.splitlines() if ln.startswith("{")]
            if p.returncode != 0 or len(got) != len(ch):
                raise RuntimeError("hmbs failed rc=%d after %d/%d calls: %s" % (p.returncode, len(got), len(ch), p.stderr[-300:]))
            return ['{"slack":%d,' % (1 if fl == "slack" else 0) + ln[1:] for ln in got]
        with ThreadPoolExecutor(max_workers=k) as ex:
            for o in ex.map(runchunk, chunks):
                events += o
    return lines, meta, events


def judge(events, workdir):
    return tlc.validate("TraceMbs", os.path.join(tlc.SPEC, "TraceMbs.cfg"), events, workdir, jvms=16, heap="2g")


def describe(call):
    fn, loc, dmax, ln, dn, flags, src = call
    return "%s(%s dmax=%d len=%d%s%s src=%s)" % (FN[fn], loc, dmax, ln, " dest=NULL" if dn else "", " flags=%d" % flags if flags else "", src[:14])


def run(prop, tier, seed, workdir):
    res = Result("mbs")
    rnd = random.Random(seed)
    cfg = os.path.join(workdir, "mbs.cfg")
    mc = 3 if tier == "quick" else 4
    tlc.write_cfg(cfg, constants=dict(MaxChars=mc), invariants=["Laws"])
    r = tlc.model_check("GenMbs", cfg, workdir, workers=16, dump=True)
    if r["violated"] or not r["ok"]:
        raise tlc.TLCError("Mbs.tla laws violated: %s\n%s" % (r["violated"], r["out"][-1500:]))
    states = tlc.parse_dump(r["dump_path"], var="st")
    os.unlink(r["dump_path"])
    sessions = sessions_from_states(states, rnd, tier) + extra_sessions(rnd, tier)
    lines, meta, events = run_sessions(sessions, workdir)
    # round trip through the real functions: every successful wcstombs_s result is converted back
    rt = []
    for ln in events:
        if '"fn":3,' in ln and '"rc":0,' in ln and '"dn":0' in ln and '"slack":1' in ln:
            e = json.loads(ln)
            if e["ret"] >= 0 and e["ret"] < e["dmax"]:
                bts = e["post"][:e["ret"]] + [0]
                if 0 not in bts[:-1]:
                    rt.append(((1, e["loc"], len(e["src"]) + 2, len(e["src"]) + 1, 0, 0, bts), e["src"], e["len"]))
    if tier == "quick" and len(rt) > 4000:
        rt = rnd.sample(rt, 4000)
    lines2, meta2, events2 = run_sessions([[c] for c, _, _ in rt], workdir, flavours=("slack",), base=10000000)
    meta.update(meta2)
    n, bad, st = judge(events + events2, workdir)
    if any(bd["why"].startswith("ORACLE") for bd in bad):
        o = [bd for bd in bad if bd["why"].startswith("ORACLE")]
        raise tlc.TLCError("Mbs.tla does not describe this C library's converters (%d events), e.g. %s: %s" % (len(o), o[0]["why"], describe(meta.get(o[0]["i"], meta[1]))))
    nev = len(events)
    allmeta = dict(meta)
    for bd in bad:
        call = meta.get(bd["i"])
        desc = "%s: %s" % (describe(call), bd["why"])
        res.violations.append(dict(desc=desc, cluster="%s|%s" % (FN[call[0]], bd["why"]), slug="mbs-%d" % bd["i"], dev=bd.get("dev", ""),
                                   replay=dict(kind="mbs", session=[list(c) for c in (session_of(sessions, bd["i"]) or [call])], why=bd["why"])))
    # round-trip comparison: the wide string obtained back must be the prefix that was converted
    rtbad = 0
    for (call, wsrc, wlen), ln in zip(rt, events2):
        e = json.loads(ln)
        back = e["post"][:e["ret"]] if e["rc"] == 0 and e["ret"] >= 0 else None
        if back is None or back != wsrc[:len(back)] or sum(u8len(c) for c in back) != len(call[6]) - 1:
            rtbad += 1
            res.violations.append(dict(desc="round trip wcstombs_s -> mbstowcs_s of %s (%s) gives %s" % (wsrc, call[1], back), cluster="roundtrip", slug="mbs-rt-%d" % rtbad, dev="",
                                       replay=dict(kind="mbs", session=[list(call)], why="roundtrip")))
    res.coverage = dict(
        states=r["distinct"], transitions=r["states"], traces_validated_against_impl=len(sessions) * 2 + len(rt), evaluations=n,
        distinct_nontrivial=len({(c[0], c[1], tuple(c[6])) for c in meta.values() if len(c[6]) > 1}),
        rule="Mbs.tla: ASCII and UTF-8 (RFC 3629) decoding / encoding, the standard restartable converters and wcrtomb as operators; GenMbs.tla (TLC): all "
             "multibyte strings of <= %d characters over 1..4-byte characters with at most one ill-formed unit (lone continuation, truncated 2- and 3-byte "
             "lead, overlong, surrogate, > U+10FFFF, 0xFF) and all wide strings likewise (surrogates; C locale: >= 0x80), locales C and C.UTF-8, len and dmax "
             "below / at / above the converted length, dest null or not; laws checked on every source: round trip, the null-dest count fits in count+1, "
             "chunked restartable conversion = conversion at once.  Every state is executed through the plain and the restartable function (continued "
             "twice, then the same mbstate on a fresh string), wcrtomb_s / wctomb_s for boundary code points x dmax 0..6; plus argument violations, "
             "seeded UTF-8 strings up to 24 characters, and every successful wcstombs_s result converted back by mbstowcs_s.  Both slack builds, dest and source flush against inaccessible pages. "
             "non-trivial = distinct (function, locale, source) with a non-empty source" % mc,
        samples=[dict(call=describe(meta[i])) for i in (1, len(meta) // 2, len(meta)) if i in meta],
        roundtrips=len(rt), exhaustive=False, checker_cmd="tlc GenMbs.tla (INVARIANT Laws); tlc TraceMbs.tla")
    from . import testtrace
    testtrace.run_mbs(res, workdir)
    res.assumptions = ["glibc's converters for the C and C.UTF-8 locales are the \"C library\" of the property; TraceMbs.tla first checks that each recorded standard-function result equals Mbs.tla (a mismatch stops the check as an infrastructure error)",
                       "state-dependent encodings do not exist in the two locales: the mbstate is only observable through partial characters, which the string converters never leave behind"]
    return res


def session_of(sessions, cid):
    pos = 0
    for ses in sessions:
        if pos < cid <= pos + len(ses):
            return ses
        pos += len(ses)
    return []


def replay(rp, workdir):
    res = Result("mbs-replay")
    ses = [tuple(c) for c in rp["session"]]
    lines, meta, events = run_sessions([ses], workdir)
    print("\n".join(events))
    n, bad, st = judge(events, workdir)
    for bd in bad:
        res.violations.append(dict(desc="replayed %s: %s" % (describe(meta[bd["i"]]), bd["why"]), cluster=bd["why"], slug="mbs-replay", dev=bd.get("dev", ""), replay=rp))
    return res
