"""setup_cmd: build everything the checks need from files on disk (offline)."""
import sys
from . import build


def main():
    r = build.ensure(["slack", "noslack", "so", "o0", "o3", "lto_O0", "lto_O2", "lto_O3", "clto_O0", "clto_O2", "clto_O3"], [("hstat", "so"), ("halloc", "slack"), ("hx", "slack"), ("hx", "noslack"), ("hhand", "slack"), ("htok", "slack"), ("hpf", "slack"), ("hpf", "noslack"), ("hsort", "slack"), ("hnorm", "slack"), ("hmbs", "slack"), ("hmbs", "noslack"), ("hts", "slack"), ("hts", "o0"), ("hts", "o3"), ("hos", "slack"), ("hos", "noslack")])
    from . import ucdgen
    ucdgen.ensure()
    print("built", r["key"])


if __name__ == "__main__":
    main()
