"""C18 engine: Erase.tla (dead-store-elimination model: TLC shows the erase survives every optimiser behaviour unless its
stores are plain, unguarded and visible to the optimiser; and the configuration matrix), one compiled client per matrix cell
(harness/erase/client.c with the flags under test, the library as shipped or rebuilt with -flto at the same level),
observed out-of-band by harness/erase/observer.c; TraceErase.tla judges every observation."""
import json
import os
import random
import subprocess
from concurrent.futures import ThreadPoolExecutor

from . import build, tlc
from .engines_common import Result

FN = {1: "memset_s", 2: "memzero_s", 3: "memset16_s", 4: "memset32_s", 5: "memzero16_s", 6: "memzero32_s", 7: "strzero_s"}
WIDTH = {1: 1, 2: 1, 3: 2, 4: 4, 5: 2, 6: 4, 7: 1}
VALUE = {1: 0xA5, 2: 0, 3: 0xA5C3, 4: 0x65C3E1D2, 5: 0, 6: 0, 7: 0}
# the fill values tried: the optimiser treats a zero fill differently from other values (a zeroing memset / store is the common idiom)
VALUES = {1: [0xA5, 0], 2: [0], 3: [0xA5C3, 0], 4: [0x65C3E1D2, 0], 5: [0], 6: [0], 7: [0]}
# further fill values for the cells whose parameters are run-time values (the same binary, another argument): values whose bytes /
# halves repeat or do not (a byte-wise or half-wise fast path for "repeating patterns" must test every byte), 0xFF.., single set bytes
MORE_VALUES = {1: [0xFF, 0x01, 0x80], 3: [0x5A5A, 0x00FF, 0xFF00, 0x0001], 4: [0x12341234, 0x5A5A5A5A, 0x00010001, 0x7F007F00, 0x000000FF, 0x7F000000]}
STO = {"stack": 0, "heap": 1, "static": 2, "local": 3}
HD = os.path.join(build.VERIF, "harness", "erase")


def client_path(root, lv, lk, fn, sto, cp, n, off, v=None):
    d = os.path.join(root, "erase-" + build.harness_hash())
    os.makedirs(d, exist_ok=True)
    return os.path.join(d, "c_%s_%s_%d_%s_%s" % (lv, lk, fn, sto, ("c%d_%d_%d" % (n, off, VALUE[fn] if v is None else v)) if cp else "rt"))


def build_client(b, root, lv, lk, fn, sto, cp, n, off, v=None):
    v = VALUE[fn] if v is None else v
    exe = client_path(root, lv, lk, fn, sto, cp, n, off, v)
    if os.path.exists(exe):
        return exe
    d = os.path.dirname(exe)
    obs = os.path.join(d, "observer.o")
    flags = ["-" + lv, "-w", "-DFN=%d" % fn, "-DSTORAGE=%d" % STO[sto]] + build._includes()
    if cp:
        flags += ["-DCONSTP", "-DCN=%d" % n, "-DCOFF=%d" % off, "-DCV=%d" % v]
    if lk == "clto":       # clang, link-time optimisation over LLVM bitcode
        cmd = ["clang", "-flto"] + flags + [os.path.join(HD, "client.c"), obs, b["clto_" + lv], "-Wl,--wrap=free", "-lm", "-o", exe + ".tmp%d" % os.getpid()]
    elif lk == "cstatic":  # clang-compiled caller, the library as shipped
        cmd = ["clang"] + flags + [os.path.join(HD, "client.c"), obs, b["slack"], "-Wl,--wrap=free", "-lm", "-o", exe + ".tmp%d" % os.getpid()]
    elif lk == "lto":
        cmd = ["gcc", "-flto"] + flags + [os.path.join(HD, "client.c"), obs, b["lto_" + lv], "-Wl,--wrap=free", "-lm", "-o", exe + ".tmp%d" % os.getpid()]
    elif lk == "static":
        cmd = ["gcc"] + flags + [os.path.join(HD, "client.c"), obs, b["slack"], "-Wl,--wrap=free", "-lm", "-o", exe + ".tmp%d" % os.getpid()]
    else:   # shared
        sod = os.path.dirname(b["so"])
        cmd = ["gcc"] + flags + [os.path.join(HD, "client.c"), obs, "-L" + sod, "-lsafec_v", "-Wl,-rpath," + sod, "-Wl,--wrap=free", "-lm", "-o", exe + ".tmp%d" % os.getpid()]
    build._run(cmd)
    os.rename(exe + ".tmp%d" % os.getpid(), exe)
    return exe


def run(prop, tier, seed, workdir):
    res = Result("erase", level="exploration")
    quick = tier == "quick"
    levels = ["O0", "O2", "O3"] if quick else ["O0", "O1", "O2", "O3", "Os"]
    links = ["static", "lto", "clto"] if quick else ["static", "lto", "shared", "clto", "cstatic"]
    ns = [1, 3, 8, 24, 31, 100] if quick else [1, 2, 3, 4, 7, 8, 9, 15, 16, 17, 24, 31, 32, 33, 64, 100, 127]
    offs = [0, 1, 3] if quick else [0, 1, 2, 3, 5, 8]
    cfg = os.path.join(workdir, "erase.cfg")
    consts = dict(Levels=set(levels), Links=set(links), Fns=set(FN), Ns=set(ns), Offs=set(offs))
    tlc.write_cfg(cfg, constants=consts, invariants=["Safe"])
    r = tlc.model_check("Erase", cfg, workdir, workers=16, dump=True)
    if r["violated"] or not r["ok"]:
        raise tlc.TLCError("Erase.tla: Safe violated: %s\n%s" % (r["violated"], r["out"][-1500:]))
    states = [s for s in tlc.parse_dump(r["dump_path"], var="st") if s.get("mode") == "case"]
    os.unlink(r["dump_path"])
    cfg2 = os.path.join(workdir, "erase2.cfg")
    tlc.write_cfg(cfg2, constants=consts, invariants=["AlwaysErased"])
    r2 = tlc.model_check("Erase", cfg2, workdir, workers=4)
    if not r2["violated"]:
        raise tlc.TLCError("self-test: the optimiser model never removes a plain visible store")
    flavours = ["slack"] + ["lto_" + lv for lv in levels] + (["clto_" + lv for lv in levels] if "clto" in links else []) + (["so"] if "shared" in links else [])
    b = build.ensure(flavours, [])
    root = b["root"]
    obsd = os.path.join(root, "erase-" + build.harness_hash())
    os.makedirs(obsd, exist_ok=True)
    obs_o = os.path.join(obsd, "observer.o")
    if not os.path.exists(obs_o):
        build._run(["gcc", "-O0", "-w", "-c", os.path.join(HD, "observer.c"), "-o", obs_o + ".tmp"])
        os.rename(obs_o + ".tmp", obs_o)
    # the constant-parameter cells are compiled for one size only (one binary per (n, off) otherwise)
    const_cells = {(24, 0), (24, 3)} if quick else {(8, 0), (24, 0), (24, 3), (100, 1)}
    cells = {}
    runs = []
    for s in states:
        key = (s["level"], s["link"], s["fn"], s["storage"], s["constp"])
        if s["constp"]:
            if (s["n"], s["off"]) not in const_cells:
                continue
        for v in VALUES[s["fn"]]:
            k2 = key + ((s["n"], s["off"], v) if s["constp"] else (0, 0, VALUE[s["fn"]]))
            cells[k2] = None
            runs.append((k2, s["n"], s["off"], v))
        if not s["constp"] and s["level"] in ("O0", "O2") and s["link"] in ("static", "lto"):
            for v in MORE_VALUES.get(s["fn"], []):
                runs.append((key + (0, 0, VALUE[s["fn"]]), s["n"], s["off"], v))

    def mk(key):
        return key, build_client(b, root, *key)
    with ThreadPoolExecutor(max_workers=16) as ex:
        for key, exe in ex.map(mk, list(cells)):
            cells[key] = exe

    def runone(a):
        i, (key, n, off, v) = a
        p = subprocess.run([cells[key], str(n), str(off), str(v)], stdout=subprocess.PIPE, stderr=subprocess.PIPE, text=True, timeout=60)
        for ln in p.stdout.splitlines():
            if ln.startswith("{"):
                return '{"id":%d,"level":"%s","link":"%s",' % (i + 1, key[0], key[1]) + ln[1:]
        return json.dumps(dict(id=i + 1, level=key[0], link=key[1], storage=key[3], fn=key[2], w=WIDTH[key[2]], constp=key[4], n=n, off=off, v=v, rc=-9999, have=0, obs=[]))
    with ThreadPoolExecutor(max_workers=16) as ex:
        events = list(ex.map(runone, list(enumerate(runs))))
    nv, bad, stt = tlc.validate("TraceErase", os.path.join(tlc.SPEC, "TraceErase.cfg"), events, workdir, jvms=8)
    for bd in bad:
        key, n, off, v = runs[bd["i"] - 1]
        if bd["why"].startswith("ORACLE"):
            raise tlc.TLCError("erase client failed to observe: %s %s n=%d off=%d: %s" % (bd["why"], key, n, off, events[bd["i"] - 1][:300]))
        lv, lk, fn, sto, cp = key[:5]
        res.violations.append(dict(
            desc="%s: caller at -%s, %s link, dead %s buffer, %s parameters (n=%d off=%d): %s" % (FN[fn], lv, lk, sto, "constant" if cp else "run-time", n, off, bd["why"]),
            cluster="%s|%s|%s" % (FN[fn], sto, bd["why"]), slug="erase-%s-%s-%s-%s-%d" % (FN[fn], lv, lk, sto, cp), dev="",
            replay=dict(kind="erase", key=list(key), n=n, off=off, v=v, why=bd["why"])))
    res.coverage = dict(
        states=r["distinct"], transitions=r["states"], traces_validated_against_impl=len(events), evaluations=nv,
        distinct_nontrivial=len(cells),
        rule="Erase.tla: TLC explores every dead-store-elimination behaviour for plain / volatile stores with and without a barrier, callee visible (LTO) or not, and checks Safe "
             "(erased unless plain, unguarded and visible; the exception is shown real by AlwaysErased failing); the matrix levels %s x links %s x 7 functions x {stack (address handed to opaque code), heap-then-free, "
             "static, stack never leaving the optimiser's view} x {run-time, compile-time constant} parameters is enumerated by TLC (%d cases over n in %s, offsets %s), compiled into %d client binaries (single call site each; LTO "
             "cells with the library rebuilt with -flto at the same level, the others with the library as shipped at -O2) and every run's out-of-band observation (after the frame is popped / "
             "when the block reaches free / at program end) is judged by TraceErase.tla: the addressed bytes hold the fill value, the 16 bytes in front and behind the secret. "
             "Fill values: the function's own and 0 in every cell; in the run-time cells at O0 / O2, static and gcc-LTO link, also values whose bytes or halves repeat or do not (0x12341234, 0x5A5A5A5A, 0x00010001, 0x00FF, 0xFF00, 0xFF ...). "
             "non-trivial = client binaries" % (levels, links, len(states), ns, offs, len(cells)),
        samples=[json.loads(events[i]) | {"obs": "..."} for i in (0, len(events) // 2, len(events) - 1)],
        exhaustive=False, checker_cmd="tlc Erase.tla (INVARIANT Safe; AlwaysErased must fail); tlc TraceErase.tla")
    res.assumptions = ["gcc 12 and clang 14 on x86-64 with these flag sets (link modes clto / cstatic are the clang cells)", "reading a popped stack frame / a block inside free() is outside the C abstract machine - it is how the observer sees what an attacker with memory access would",
                       "the address of the buffer escapes to the opaque observer before the erase (as it would to any I/O routine that filled it)"]
    return res


def replay(rp, workdir):
    res = Result("erase-replay", level="exploration")
    key = tuple(rp["key"])
    flavours = ["slack"] + (["lto_" + key[0]] if key[1] == "lto" else []) + (["clto_" + key[0]] if key[1] == "clto" else []) + (["so"] if key[1] == "shared" else [])
    b = build.ensure(flavours, [])
    obsd = os.path.join(b["root"], "erase-" + build.harness_hash())
    os.makedirs(obsd, exist_ok=True)
    obs_o = os.path.join(obsd, "observer.o")
    if not os.path.exists(obs_o):
        build._run(["gcc", "-O0", "-w", "-c", os.path.join(HD, "observer.c"), "-o", obs_o])
    exe = build_client(b, b["root"], *key)
    p = subprocess.run([exe, str(rp["n"]), str(rp["off"]), str(rp["v"])], stdout=subprocess.PIPE, text=True, timeout=60)
    evs = ['{"id":1,"level":"%s","link":"%s",' % (key[0], key[1]) + ln[1:] for ln in p.stdout.splitlines() if ln.startswith("{")]
    print("\n".join(evs))
    n, bad, st = tlc.validate("TraceErase", os.path.join(tlc.SPEC, "TraceErase.cfg"), evs, workdir, jvms=1)
    for bd in bad:
        res.violations.append(dict(desc="replayed: %s" % bd["why"], cluster=bd["why"], slug="erase-replay", dev="", replay=rp))
    return res
